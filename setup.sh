#!/bin/sh
# Offline construction of the overlay venv used by every check.
# /venv (the repository's own environment) is left untouched; the overlay sees
# its site-packages through a .pth file and adds z3-solver + crosshair-tool
# from the offline wheelhouse.
set -e
cd "$(dirname "$0")"
V=.venv
if [ ! -x "$V/bin/python" ] || ! "$V/bin/python" -c "import z3, crosshair" 2>/dev/null; then
  rm -rf "$V"
  /venv/bin/python -m venv "$V"
  SP=$("$V/bin/python" -c "import sysconfig; print(sysconfig.get_paths()['purelib'])")
  echo "import site; site.addsitedir('/venv/lib/python3.12/site-packages')" > "$SP/_overlay.pth"
  PIP_NO_INDEX=1 "$V/bin/pip" install -q --no-index --find-links /opt/veriftools/wheels z3-solver crosshair-tool
fi
"$V/bin/python" -c "import z3, crosshair; print('overlay ok: z3', z3.get_version_string())"
mkdir -p evidence replays
