"""Circuit families ("programs": enumerated, not solved).

(i)   systematic: every topology with few inputs / gates;
(ii)  feature-directed: the shapes the property texts name;
(iii) seeded random DAGs.
"""
import itertools
import random

from . import env

env.setup()

from cirbo.core.circuit import Circuit, gate as G  # noqa: E402

UNARY = [G.NOT, G.IFF]
BINARY_ONLY = [G.GT, G.LT, G.GEQ, G.LEQ, G.LNOT, G.RNOT, G.LIFF, G.RIFF]
NARY = [G.AND, G.OR, G.XOR, G.NAND, G.NOR, G.NXOR]
CONST = [G.ALWAYS_TRUE, G.ALWAYS_FALSE]
ALL_TYPES = UNARY + BINARY_ONLY + NARY + CONST
BENCH_TYPES = [G.NOT, G.IFF] + NARY
SUBCIRCUIT_TYPES = [G.NOT, G.AND, G.NAND, G.OR, G.NOR, G.XOR, G.NXOR, G.GEQ, G.LT, G.LEQ, G.GT]


def types_for_arity(k, pool=None):
    pool = ALL_TYPES if pool is None else pool
    out = []
    for t in pool:
        if t in CONST and k == 0:
            out.append(t)
        elif t in UNARY and k == 1:
            out.append(t)
        elif t in BINARY_ONLY and k == 2:
            out.append(t)
        elif t in NARY and k >= 2:
            out.append(t)
    return out


def build(inputs, gates, outputs, storage_order=None):
    """gates: list of (label, GateType, operands).  storage_order: permutation of all
    labels (inputs + gates) giving the insertion order into the gate map."""
    c = Circuit()
    spec = {lab: (G.INPUT, ()) for lab in inputs}
    for lab, t, ops in gates:
        spec[lab] = (t, tuple(ops))
    order = storage_order or (list(inputs) + [g[0] for g in gates])
    for lab in order:
        t, ops = spec[lab]
        c._emplace_gate(lab, t, ops)
    c.set_inputs(list(inputs))
    c.set_outputs(list(outputs))
    return c


def random_circuit(
    rnd,
    n_inputs,
    n_gates,
    pool=None,
    max_arity=3,
    n_outputs=None,
    labels=None,
    shuffle_storage=False,
    allow_dup_operands=True,
    outputs_may_be_inputs=True,
    allow_zero_inputs=False,
    dup_bias=0.0,
):
    pool = ALL_TYPES if pool is None else pool
    inputs = [f"x{i}" for i in range(n_inputs)] if labels is None else labels[:n_inputs]
    nodes = list(inputs)
    gates = []
    for j in range(n_gates):
        lab = f"g{j}" if labels is None else labels[n_inputs + j]
        arities = [0, 1, 2, 2, 2] + list(range(3, max_arity + 1))
        while True:
            k = rnd.choice(arities)
            ts = types_for_arity(k, pool)
            if not ts:
                continue
            if k > 0 and not nodes:
                continue
            break
        t = rnd.choice(ts)
        if dup_bias and gates and rnd.random() < dup_bias:
            # deliberate (possibly commuted) duplicate of an earlier gate, optionally over a duplicate operand
            _, t0, ops0 = rnd.choice(gates)
            ops0 = list(ops0)
            if rnd.random() < 0.5:
                rnd.shuffle(ops0)
            gates.append((lab, t0, tuple(ops0)))
            nodes.append(lab)
            continue
        if allow_dup_operands or len(nodes) < k:
            ops = tuple(rnd.choice(nodes) for _ in range(k))
        else:
            ops = tuple(rnd.sample(nodes, k))
        gates.append((lab, t, ops))
        nodes.append(lab)
    if n_outputs is None:
        n_outputs = rnd.randint(1, 3)
    cand = nodes if outputs_may_be_inputs else [g[0] for g in gates] or nodes
    outputs = [rnd.choice(cand) for _ in range(n_outputs)] if cand else []
    order = None
    if shuffle_storage:
        order = list(nodes)
        rnd.shuffle(order)
    return build(inputs, gates, outputs, order)


def systematic_topologies(n_inputs, n_gates, arities=(1, 2)):
    """Yield lists of operand-index tuples; node i < n_inputs is an input."""

    def rec(j, acc):
        if j == n_gates:
            yield list(acc)
            return
        avail = n_inputs + j
        for k in arities:
            if k == 0:
                yield from rec(j + 1, acc + [()])
                continue
            if avail == 0:
                continue
            for ops in itertools.product(range(avail), repeat=k):
                yield from rec(j + 1, acc + [ops])

    yield from rec(0, [])


def feature_circuits():
    """Named circuits exhibiting the shapes named in the property texts."""
    out = []

    def add(name, inputs, gates, outputs, order=None):
        out.append((name, build(inputs, gates, outputs, order)))

    add("dead_gate_unused_input", ["a", "b", "c"],
        [("g", G.AND, ("a", "b")), ("dead", G.OR, ("a", "g"))], ["g"])
    add("output_is_input_repeated", ["a", "b"], [("g", G.XOR, ("a", "b"))], ["a", "g", "g", "a"])
    add("not_chain_into_symmetric", ["a", "b"],
        [("n1", G.NOT, ("a",)), ("n2", G.NOT, ("n1",)), ("n3", G.NOT, ("n2",)),
         ("i1", G.IFF, ("b",)), ("o", G.AND, ("n3", "i1", "n2"))], ["o", "n2"])
    add("lnot_riff_chain", ["a", "b", "c"],
        [("l", G.LNOT, ("a", "b")), ("r", G.RIFF, ("l", "c")), ("rn", G.RNOT, ("b", "r")),
         ("li", G.LIFF, ("rn", "a")), ("o", G.NXOR, ("li", "r", "c"))], ["o"])
    for t in (G.GT, G.LT, G.GEQ, G.LEQ, G.LNOT, G.RNOT, G.LIFF, G.RIFF):
        add(f"{t.name}_same_operand", ["a", "b"],
            [("g", t, ("a", "a")), ("o", G.OR, ("g", "b"))], ["o", "g"])
    add("nary5", ["a", "b", "c", "d", "e"],
        [("x", G.XOR, ("a", "b", "c", "d", "e")), ("n", G.NAND, ("a", "b", "c", "d")),
         ("o", G.NOR, ("x", "n", "e"))], ["o", "x"])
    add("dup_operands", ["a", "b"],
        [("x", G.XOR, ("a", "a", "b")), ("y", G.AND, ("b", "b")), ("z", G.NXOR, ("x", "x"))],
        ["x", "y", "z"])
    add("constants_with_inputs", ["a"],
        [("t", G.ALWAYS_TRUE, ()), ("f", G.ALWAYS_FALSE, ()), ("o", G.AND, ("a", "t")),
         ("p", G.OR, ("o", "f"))], ["p", "t"])
    # constants may carry (ignored) operands, and those may be internal gates: the constant is still an ordinary node
    # of the DAG for every traversal (it comes after its operands, its operands list it among their users)
    add("constants_with_internal_operands", ["a", "b"],
        [("g", G.AND, ("a", "b")), ("t", G.ALWAYS_TRUE, ("g", "a")), ("n", G.NOT, ("g",)), ("f", G.ALWAYS_FALSE, ("n",)),
         ("f2", G.ALWAYS_FALSE, ("n", "t")), ("o", G.OR, ("t", "f", "n"))], ["o", "t", "f2"], ["f2", "t", "o", "f", "n", "g", "a", "b"])
    add("constants_with_internal_operands_stored_in_order", ["a", "b"],
        [("g", G.AND, ("a", "b")), ("t", G.ALWAYS_TRUE, ("g", "a")), ("n", G.NOT, ("g",)), ("f", G.ALWAYS_FALSE, ("n",)),
         ("f2", G.ALWAYS_FALSE, ("n", "t")), ("o", G.OR, ("t", "f", "n"))], ["o", "t", "f2"])
    add("constants_only", [], [("t", G.ALWAYS_TRUE, ()), ("f", G.ALWAYS_FALSE, ()),
                               ("o", G.GT, ("t", "f"))], ["o"])
    add("out_of_topological_storage", ["a", "b"],
        [("g1", G.AND, ("a", "b")), ("g2", G.NOT, ("g1",)), ("g3", G.OR, ("g2", "a"))],
        ["g3"], ["g3", "g2", "b", "g1", "a"])
    add("shared_fanout", ["a", "b", "c"],
        [("s", G.XOR, ("a", "b")), ("u", G.AND, ("s", "c")), ("v", G.OR, ("s", "c")),
         ("w", G.GEQ, ("u", "v")), ("z", G.LEQ, ("s", "w"))], ["w", "z"])
    add("duplicate_gates", ["a", "b"],
        [("p", G.AND, ("a", "b")), ("q", G.AND, ("b", "a")), ("r", G.GT, ("a", "b")),
         ("s", G.GT, ("a", "b")), ("t", G.GT, ("b", "a")), ("o", G.OR, ("p", "q", "r", "s", "t"))],
        ["o", "q"])
    add("equivalent_not_duplicate", ["a", "b"],
        [("p", G.NAND, ("a", "b")), ("na", G.NOT, ("a",)), ("nb", G.NOT, ("b",)),
         ("q", G.OR, ("na", "nb")), ("o", G.XOR, ("p", "q"))], ["o", "p", "q"])
    add("buffers_only", ["a", "b"],
        [("i1", G.IFF, ("a",)), ("i2", G.IFF, ("i1",)), ("l", G.LIFF, ("i2", "b")),
         ("r", G.RIFF, ("a", "l")), ("o", G.AND, ("r", "i1"))], ["o", "i2", "r"])
    # n-ary parity gate with a repeated operand next to its sibling over the de-duplicated operands
    add("xor_repeated_operand_sibling", ["a", "b", "c"],
        [("g", G.AND, ("a", "b")), ("h", G.AND, ("b", "a")), ("x", G.XOR, ("g", "h", "c")), ("y", G.XOR, ("g", "c")),
         ("z", G.NXOR, ("g", "g", "c")), ("w", G.NXOR, ("c", "g"))], ["x", "y", "z", "w"])
    # duplicates behind duplicates (second level only becomes equal after relinking)
    add("two_level_duplicates", ["a", "b", "c"],
        [("d1", G.OR, ("a", "b")), ("d2", G.OR, ("b", "a")), ("e1", G.AND, ("d2", "c")), ("e2", G.AND, ("c", "d2")), ("e3", G.AND, ("d2", "c")),
         ("f1", G.GT, ("e1", "d1")), ("f2", G.GT, ("e2", "d2")), ("o", G.XOR, ("f1", "f2", "e3"))], ["o", "e2", "f2"])
    for first, other in (("d1", "d2"), ("d2", "d1")):
        # the duplicate reached first by the traversal becomes the representative; gates hanging off the *other* one
        # only become duplicates of each other after relinking
        add(f"two_level_duplicates_off_{other}", ["a", "b", "c"],
            [("d1", G.AND, ("a", "b")), ("d2", G.AND, ("b", "a")), ("x", G.OR, (other, "c")), ("y", G.OR, ("c", other)),
             ("p", G.LEQ, (other, "c")), ("q", G.LEQ, (other, "c")), ("z", G.NOT, (first,))], ["x", "y", "p", "q", "z"])
    # pseudo-unary gates whose *insignificant* operand is a buffer / negation, negated again
    add("rnot_with_buffer_on_the_left", ["y", "z"],
        [("bz", G.IFF, ("z",)), ("r", G.RNOT, ("bz", "y")), ("n", G.NOT, ("r",)), ("l", G.LNOT, ("y", "bz")), ("m", G.NOT, ("l",)),
         ("rr", G.RNOT, ("n", "r")), ("o", G.AND, ("n", "m", "rr"))], ["n", "m", "o", "rr"])
    add("long_negation_chain", ["a"],
        [("n1", G.NOT, ("a",)), ("n2", G.LNOT, ("n1", "a")), ("n3", G.RNOT, ("a", "n2")), ("n4", G.NOT, ("n3",)), ("n5", G.NOT, ("n4",)),
         ("n6", G.LNOT, ("n5", "n1")), ("n7", G.NOT, ("n6",)), ("n8", G.RNOT, ("n2", "n7"))], ["n8", "n4", "n6", "n7"])
    add("long_buffer_chain", ["a", "b"],
        [("i1", G.IFF, ("a",)), ("i2", G.LIFF, ("i1", "b")), ("i3", G.RIFF, ("b", "i2")), ("i4", G.IFF, ("i3",)), ("i5", G.RIFF, ("i1", "i4")),
         ("o", G.XOR, ("i5", "b"))], ["o", "i5", "i3"])
    # an input that is directly an output several times, and an output that is also an operand
    add("input_output_and_operand_output", ["a", "b"], [("g", G.AND, ("a", "b")), ("h", G.OR, ("g", "a"))], ["a", "g", "h", "a", "g"])
    # equivalent gates where the output is not the first-visited representative
    add("equivalent_output_not_representative", ["a", "b"],
        [("o1", G.AND, ("a", "b")), ("o2", G.NOR, ("na", "nb")), ("na", G.NOT, ("a",)), ("nb", G.NOT, ("b",)), ("o3", G.OR, ("o1", "a"))],
        ["o1", "o3", "o2"], ["a", "b", "na", "nb", "o2", "o1", "o3"])
    # several gates that are never true (resp. never false) without being literal duplicates of each other
    add("constant_false_gates_not_duplicates", ["a", "b"],
        [("na", G.NOT, ("a",)), ("f1", G.AND, ("a", "na")), ("f2", G.GT, ("b", "b")), ("zero", G.ALWAYS_FALSE, ()), ("z2", G.NOR, ("b", "nb")), ("nb", G.NOT, ("b",)),
         ("t1", G.OR, ("a", "na")), ("t2", G.GEQ, ("b", "b")), ("o", G.OR, ("f1", "f2", "zero", "z2")), ("o2", G.AND, ("t1", "t2", "b"))],
        ["o", "o2", "f1", "f2"], ["a", "b", "na", "nb", "f1", "f2", "zero", "z2", "t1", "t2", "o", "o2"])
    # inputs that no gate reads, wired straight to outputs (rotated), next to ordinary logic
    add("unread_inputs_passed_through", ["a0", "a1", "a2", "a3", "p", "q"], [("g", G.XOR, ("p", "q"))], ["a3", "a0", "a1", "a2", "g"])
    # double negation sitting on a buffer, the outer negation used by an ordinary gate and as an output
    add("double_negation_on_buffer", ["x", "y"],
        [("b", G.IFF, ("x",)), ("n1", G.NOT, ("b",)), ("n2", G.NOT, ("n1",)), ("o", G.AND, ("n2", "y")), ("l", G.LIFF, ("y", "x")), ("m1", G.LNOT, ("l", "x")), ("m2", G.NOT, ("m1",))],
        ["n2", "o", "m2"])
    add("no_outputs", ["a"], [("g", G.NOT, ("a",))], [])
    add("single_input_passthrough", ["a"], [], ["a"])
    # circuits that went through copy.deepcopy / pickle (the library deep-copies circuits itself): every gate type
    # object is then *equal to* but *not the same object as* the module constant
    import copy
    import pickle

    mixed = build(["a", "b", "c"],
                  [("n", G.NOT, ("a",)), ("i", G.IFF, ("b",)), ("lt", G.LT, ("n", "c")), ("ge", G.GEQ, ("i", "lt")), ("t", G.ALWAYS_TRUE, ()),
                   ("x", G.XOR, ("ge", "t", "a")), ("ln", G.LNOT, ("x", "b")), ("o", G.NAND, ("ln", "lt"))], ["o", "x", "c"])
    out.append(("deepcopied_mixed_types", copy.deepcopy(mixed)))
    out.append(("pickled_mixed_types", pickle.loads(pickle.dumps(mixed))))
    out.append(("deepcopied_unused_input_dead_gate", copy.deepcopy(build(["a", "b", "c"], [("g", G.AND, ("a", "b")), ("dead", G.OR, ("a", "g"))], ["g"]))))
    out.append(("deepcopied_bench_types", copy.deepcopy(build(["a", "b"], [("n", G.NOT, ("a",)), ("g", G.AND, ("n", "b")), ("o", G.OR, ("g", "a")), ("x", G.NXOR, ("o", "n"))], ["x", "g"]))))
    # pseudo-unary gates whose *ignored* operand is exactly a double negation / a buffer of a buffer
    add("lnot_rnot_ignoring_a_double_negation", ["s", "y"],
        [("n1", G.NOT, ("y",)), ("n2", G.NOT, ("n1",)), ("l", G.LNOT, ("s", "n2")), ("r", G.RNOT, ("n2", "s")), ("o", G.AND, ("l", "r", "y"))], ["o", "l"])
    add("liff_riff_ignoring_a_double_buffer", ["s", "y"],
        [("b1", G.IFF, ("y",)), ("b2", G.IFF, ("b1",)), ("l", G.LIFF, ("s", "b2")), ("r", G.RIFF, ("b2", "s")), ("o", G.OR, ("l", "r", "y"))], ["o", "r"])
    # labels are arbitrary strings: the empty one (falsy), ones that contain what other modules print or split on
    # (", ", "@", "#", a blank), digits only, equal up to case, not ASCII.  Gates that print alike are different gates:
    # AND('a', 'b, c') vs AND('a, b', 'c'); '' and '#' compute the same function by different structure.
    add("labels_with_special_content", ["a", "b, c", "a, b", "c"],
        [("", G.AND, ("a", "b, c")), ("0", G.AND, ("a, b", "c")), ("x@y", G.NOT, ("a",)), (" ", G.NOT, ("b, c",)), ("#", G.NOR, ("x@y", " ")),
         ("\u00e9", G.OR, ("", "0")), ("\u00c9", G.XOR, ("\u00e9", "#")), ("A", G.GT, ("\u00c9", "a"))], ["", "#", "0", "\u00c9", "A"])
    add("labels_with_special_content_other_output_order", ["a", "b, c", "a, b", "c"],
        [("0", G.AND, ("a, b", "c")), ("", G.AND, ("a", "b, c")), ("x@y", G.NOT, ("a",)), (" ", G.NOT, ("b, c",)), ("#", G.NOR, ("x@y", " ")),
         ("1", G.OR, ("#", "0", ""))], ["#", "1", "", "0"])
    return out


def large_circuit(rnd, n_in, n_g, pool=None, max_arity=3, locality=0.85, n_outputs=3, prefix="g"):
    """Hundreds of gates: operands come mostly from the last few gates, so cones are deep and reconvergent
    (sizes at which traversals, caches, word sizes and recursion depths change regime)."""
    ins = [f"x{i}" for i in range(n_in)]
    nodes, gates = list(ins), []
    for j in range(n_g):
        k = rnd.choice([1, 2, 2, 2] + list(range(3, max_arity + 1)))
        ts = types_for_arity(k, pool) or types_for_arity(2, pool)
        t = rnd.choice(ts)
        k = k if types_for_arity(k, pool) else 2
        recent = nodes[-6:]
        gates.append((f"{prefix}{j}", t, tuple(rnd.choice(recent if rnd.random() < locality else nodes) for _ in range(k))))
        nodes.append(f"{prefix}{j}")
    outs = [nodes[-1]] + [rnd.choice(nodes[n_in:]) for _ in range(n_outputs - 1)]
    return build(ins, gates, outs)


def large_circuits(seed=0):
    rnd = __import__("random").Random(1000 + seed)
    bench_pool = [G.NOT, G.AND, G.OR, G.XOR, G.NAND, G.NOR, G.NXOR, G.IFF]
    return [("large-300-gates", large_circuit(rnd, 8, 300)),
            ("large-700-gates-bench-types", large_circuit(rnd, 10, 700, pool=bench_pool, max_arity=2, prefix="n"))]


def seeded_family(seed, count, n_inputs=(1, 5), n_gates=(1, 10), **kw):
    rnd = random.Random(seed)
    for i in range(count):
        ni = rnd.randint(*n_inputs)
        ng = rnd.randint(*n_gates)
        yield f"seeded[{seed}:{i}]", random_circuit(rnd, ni, ng, **kw)


def add_random_blocks(c, rnd, max_blocks=2):
    """Attach up to `max_blocks` blocks over random gate subsets (in place)."""
    labs = [l for l, g in c.gates.items() if g.gate_type != G.INPUT]
    for b in range(rnd.randint(0, max_blocks)):
        if not labs:
            break
        members = rnd.sample(labs, rnd.randint(1, len(labs)))
        outs = rnd.sample(members, rnd.randint(0, min(2, len(members))))
        c.make_block(f"blk{b}", members, outs)
    return c
