"""E-N: symbolic netlists for code that only *looks up* labels (traversals, mutators).

A netlist of n inputs and g gates with concrete labels is built directly in a Circuit's
fields; every operand, output and start-list entry is a `SymLabel`: "one of these labels,
which one is the z3 integer k".  The label is decided (forkexec) only when the code under
test hashes or compares it, i.e. when it looks the gate up; choices the code never looks at
stay symbolic and one path covers all their values.  The users index is the lazy multiset
inverse of the *initial* operands (the representation invariant is assumed for the
pre-state, not recomputed from a possibly edited state), and whether a gate nobody reads is
absent from the index or present with an empty list is a free choice as well.

`forkexec.explore` proves with z3 that the explored paths cover every assignment of the
choice variables, so a clean run is "for every netlist of this shape".
"""
import z3

from vlib import forkexec


class SymLabel:
    __slots__ = ("k", "universe", "_val")

    def __init__(self, k, universe):
        self.k, self.universe, self._val = k, list(universe), None

    def value(self):
        if self._val is None:
            for i, u in enumerate(self.universe[:-1]):
                if forkexec.decide(self.k == i):
                    self._val = u
                    break
            else:
                self._val = self.universe[-1]
        return self._val

    def __hash__(self):
        return hash(self.value())

    def __eq__(self, o):
        if isinstance(o, SymLabel):
            if self._val is None and o._val is None and self.universe == o.universe:
                return forkexec.decide(self.k == o.k)
            return self.value() == o.value()
        if isinstance(o, str):
            if self._val is not None:
                return self._val == o
            if o not in self.universe:
                return False
            if forkexec.decide(self.k == self.universe.index(o)):
                self._val = o
                return True
            return False
        return NotImplemented

    def __ne__(self, o):
        r = self.__eq__(o)
        return r if r is NotImplemented else not r

    def __str__(self):
        return self.value()

    __repr__ = __str__

    def __format__(self, spec):
        return format(self.value(), spec)

    def __lt__(self, o):
        return self.value() < plain(o)

    def __gt__(self, o):
        return self.value() > plain(o)


def plain(x):
    return x.value() if isinstance(x, SymLabel) else x


def constraints(labels):
    return [z3.And(l.k >= 0, l.k < len(l.universe)) for l in labels]


class LazyUsers(dict):
    """label -> list of user labels, materialised from the initial operands on first access."""

    def __init__(self, gate_ops, absent_choice=None, universe=()):
        super().__init__()
        self._gate_ops = [(lab, list(ops)) for lab, ops in gate_ops]
        self._done = set()
        self._absent_choice = absent_choice or {}
        self._universe = list(universe)

    # whole-dictionary views: everything is materialised first (the index then is an ordinary complete dict)
    def _all(self):
        for l in self._universe:
            self._materialise(l)

    def __iter__(self):
        self._all()
        return dict.__iter__(self)

    def __len__(self):
        self._all()
        return dict.__len__(self)

    def keys(self):
        self._all()
        return dict.keys(self)

    def values(self):
        self._all()
        return dict.values(self)

    def items(self):
        self._all()
        return dict.items(self)

    def copy(self):
        self._all()
        return dict(dict.items(self))

    def __deepcopy__(self, memo):
        import copy as _copy

        self._all()
        return _copy.deepcopy(dict(dict.items(self)), memo)

    def __reduce__(self):
        self._all()
        return (dict, (dict(dict.items(self)),))

    def _materialise(self, label):
        label = plain(label)
        if label in self._done:
            return label
        self._done.add(label)
        users = [g for g, ops in self._gate_ops for o in ops if o == label]
        absent = self._absent_choice.get(label)
        if users or absent is None or not forkexec.decide(absent):
            dict.__setitem__(self, label, users)
        return label

    def materialise_all(self, labels):
        for l in labels:
            self._materialise(l)

    def __contains__(self, label):
        return dict.__contains__(self, self._materialise(label))

    def __getitem__(self, label):
        return dict.__getitem__(self, self._materialise(label))

    def get(self, label, default=None):
        label = self._materialise(label)
        return dict.get(self, label, default)

    def __setitem__(self, label, v):
        self._done.add(plain(label))
        dict.__setitem__(self, plain(label), v)

    def __delitem__(self, label):
        dict.__delitem__(self, self._materialise(label))

    def pop(self, label, *d):
        return dict.pop(self, self._materialise(label), *d)

    def setdefault(self, label, default=None):
        label = self._materialise(label)
        return dict.setdefault(self, label, default)


class SymNetlist:
    """Shape: n_in inputs, arities of the gates, number of outputs; everything else symbolic."""

    def __init__(self, n_in, arities, n_out, cyclic=False, tag="s", types=None, index_representation=False):
        self.n_in, self.arities, self.n_out, self.cyclic, self.tag = n_in, list(arities), n_out, cyclic, tag
        self.inputs = [f"x{i}" for i in range(n_in)]
        self.glabels = [f"g{j}" for j in range(len(arities))]
        self.nodes = self.inputs + self.glabels
        self.types = types
        self.op_vars = [[z3.Int(f"{tag}_op_{j}_{k}") for k in range(a)] for j, a in enumerate(arities)]
        self.out_vars = [z3.Int(f"{tag}_out_{i}") for i in range(n_out)]
        self.absent_vars = {l: z3.Bool(f"{tag}_absent_{l}") for l in self.nodes} if index_representation else {}

    def universe(self, j):
        return self.nodes if self.cyclic else self.nodes[: self.n_in + j]

    def base(self):
        cons = []
        for j, vs in enumerate(self.op_vars):
            cons += [z3.And(v >= 0, v < len(self.universe(j))) for v in vs]
        cons += [z3.And(v >= 0, v < len(self.nodes)) for v in self.out_vars]
        return cons

    def feasible(self):
        return all(len(self.universe(j)) > 0 for j, a in enumerate(self.arities) if a > 0) and (self.n_out == 0 or self.nodes)

    def gate_type(self, j):
        from vlib import circgen

        if self.types is not None:
            return self.types[j]
        ts = circgen.types_for_arity(self.arities[j])
        return ts[j % len(ts)]

    def build(self):
        """A fresh Circuit whose structure is the symbolic netlist (call inside forkexec.explore)."""
        from cirbo.core.circuit import Circuit, Gate, gate as G

        c = Circuit()
        gate_ops = []
        for l in self.inputs:
            c._gates[l] = Gate(l, G.INPUT)
        for j, lab in enumerate(self.glabels):
            ops = tuple(SymLabel(v, self.universe(j)) for v in self.op_vars[j])
            c._gates[lab] = Gate(lab, self.gate_type(j), ops)
            gate_ops.append((lab, ops))
        c._inputs = list(self.inputs)
        c._outputs = [SymLabel(v, self.nodes) for v in self.out_vars]
        c._gate_to_users = LazyUsers(gate_ops, self.absent_vars, universe=self.nodes)
        return c

    def concrete(self, model):
        """(inputs, [(label, type, operands)], outputs) under a z3 model (unconstrained choices completed)."""
        def val(v, uni):
            return uni[model.eval(v, model_completion=True).as_long() % len(uni)]

        gates = [(lab, self.gate_type(j), tuple(val(v, self.universe(j)) for v in self.op_vars[j])) for j, lab in enumerate(self.glabels)]
        outs = [val(v, self.nodes) for v in self.out_vars]
        return list(self.inputs), gates, outs

    def concrete_circuit(self, model):
        from cirbo.core.circuit import Circuit

        ins, gates, outs = self.concrete(model)
        c = Circuit()
        for l in ins:
            c._emplace_gate(l, __import__("cirbo.core.circuit", fromlist=["gate"]).gate.INPUT)
        for lab, t, ops in gates:
            c._emplace_gate(lab, t, ops)
        c._inputs = list(ins)
        c._outputs = list(outs)
        return c


def path_model(path, base):
    s = z3.Solver()
    s.add(*base)
    s.add(path.cond())
    if str(s.check()) != "sat":
        return None
    return s.model()
