"""E-X: run CrossHair on contract functions that wrap real cirbo code."""
import ast
import os
import re
import subprocess
import sys
import time

VERIF = os.path.dirname(os.path.dirname(os.path.abspath(__file__)))


def find_lines(path, names):
    """function name -> line number of its `def` (+1: a line inside the def)."""
    src = open(path).read()
    tree = ast.parse(src)
    out = {}
    for node in tree.body:
        if isinstance(node, ast.FunctionDef) and node.name in names:
            out[node.name] = node.lineno + 1
    return out


def check(path, func, timeout_s=60, extra_pythonpath=()):
    """Returns dict(status=confirmed|counterexample|inconclusive|error, message, call, secs)."""
    line = find_lines(path, [func]).get(func)
    if line is None:
        return dict(status="error", message=f"no function {func} in {path}", call=None, secs=0)
    crosshair = os.path.join(os.path.dirname(sys.executable), "crosshair")
    env = dict(os.environ)
    env["PYTHONPATH"] = os.pathsep.join([VERIF, os.environ.get("VERIF_REPO", "/repo"), os.path.join(VERIF, "vlib", "shims"), *extra_pythonpath])
    env["PYTHONDONTWRITEBYTECODE"] = "1"
    env.setdefault("PYTHONHASHSEED", "0")
    t0 = time.time()
    try:
        r = subprocess.run(
            [crosshair, "check", "--report_all", "--per_condition_timeout", str(timeout_s), "--per_path_timeout", str(max(2, timeout_s // 6)),
             f"{path}:{line}"],
            capture_output=True, text=True, timeout=timeout_s * 3 + 60, env=env, cwd=VERIF,
        )
        out = r.stdout + r.stderr
    except subprocess.TimeoutExpired:
        return dict(status="inconclusive", message="crosshair process timed out", call=None, secs=time.time() - t0)
    secs = time.time() - t0
    call = None
    status = "inconclusive"
    msg = out.strip()[-800:]
    for ln in out.splitlines():
        m = re.search(r"error: (false|.*?) when calling (.*?)(?: \(which (?:returns|raises).*)?$", ln)
        if ": error:" in ln and "when calling" in ln:
            mm = re.search(r"when calling (.*?)( \(which .*)?$", ln)
            call = mm.group(1) if mm else None
            status = "counterexample"
            msg = ln.strip()
            break
        if ": error:" in ln:
            status = "error"
            msg = ln.strip()
    if status == "inconclusive":
        if "Confirmed over all paths" in out:
            status = "confirmed"
        elif "Not confirmed" in out or "Unable to meet precondition" in out:
            status = "inconclusive"
    return dict(status=status, message=msg, call=call, secs=secs)
