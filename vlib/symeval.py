"""E-S: value-symbolic execution of cirbo's *real* operators and evaluators.

`SymState` is a guarded union {False, True, Undefined} of z3 Booleans.  The
module-level containers of cirbo/core/circuit/operators.py are *wrapped* (not
replaced) so that on concrete keys they behave as before and on a `SymState`
they return a guarded integer (`GInt`) which flows through the real index
arithmetic and is finally used to select, under guards, the REAL table entries.
The real `and_`, `xor_`, `gt_`, ... and the real `Circuit.evaluate_*` therefore
run unmodified and return z3 terms.
"""
import contextlib
import itertools

import z3

from . import forkexec

# ----------------------------------------------------------------------------
# Boolean helpers with constant folding (Python bools stay Python bools)


def b_not(a):
    if a is True:
        return False
    if a is False:
        return True
    return z3.Not(a)


def b_and(*xs):
    out = []
    for x in xs:
        if x is False:
            return False
        if x is True:
            continue
        out.append(x)
    if not out:
        return True
    if len(out) == 1:
        return out[0]
    return z3.And(*out)


def b_or(*xs):
    out = []
    for x in xs:
        if x is True:
            return True
        if x is False:
            continue
        out.append(x)
    if not out:
        return False
    if len(out) == 1:
        return out[0]
    return z3.Or(*out)


def b_ite(c, a, b):
    if c is True:
        return a
    if c is False:
        return b
    return z3.If(c, zb(a), zb(b))


def zb(x):
    """Python bool / z3 Bool -> z3 Bool."""
    if x is True or x is False:
        return z3.BoolVal(x)
    return x


class Concretized(RuntimeError):
    pass


# ----------------------------------------------------------------------------


class SymState:
    """Guarded union of the three gate states.  t: is True, u: is Undefined."""

    __slots__ = ("t", "u")

    def __init__(self, t, u=False):
        self.t = t
        self.u = u

    @property
    def f(self):
        return b_and(b_not(self.t), b_not(self.u))

    def guards(self):
        return {0: self.f, 1: self.t, 2: self.u}

    # Branching on a gate value: hand over to the forking executor.
    def _concretize(self):
        from cirbo.core.circuit.operators import Undefined

        if not forkexec.active():
            raise Concretized("gate value concretised by the code under test")
        if forkexec.decide(zb(self.u)):
            return Undefined
        return bool(forkexec.decide(zb(self.t)))

    def __bool__(self):
        return bool(self._concretize())

    def __eq__(self, other):
        if isinstance(other, SymState):
            if not forkexec.active():
                raise Concretized("SymState == SymState outside forkexec.explore")
            return forkexec.decide(states_equal(self, other))
        return self._concretize() == other

    def __ne__(self, other):
        return not self.__eq__(other)

    def __hash__(self):
        return hash(self._concretize())

    def __repr__(self):
        return f"SymState(t={self.t}, u={self.u})"


def lift(v):
    """Any gate state (bool, Undefined, SymState) -> SymState."""
    from cirbo.core.circuit.operators import _Undefined

    if isinstance(v, SymState):
        return v
    if isinstance(v, _Undefined):
        return SymState(False, True)
    if v is True or v is False:
        return SymState(v, False)
    if isinstance(v, (int,)) and v in (0, 1):
        return SymState(bool(v), False)
    raise TypeError(f"not a gate state: {v!r}")


def merge(pairs):
    """[(guard, state)] (guards exclusive, exhaustive) -> SymState."""
    ts, us = [], []
    for g, s in pairs:
        s = lift(s)
        ts.append(b_and(g, s.t))
        us.append(b_and(g, s.u))
    return SymState(b_or(*ts), b_or(*us))


class GInt:
    """Guarded union of concrete integers: {value: guard}."""

    __slots__ = ("alts",)

    def __init__(self, alts):
        self.alts = {v: g for v, g in alts.items() if g is not False}

    def _map(self, f):
        out = {}
        for v, g in self.alts.items():
            nv = f(v)
            out[nv] = b_or(out[nv], g) if nv in out else g
        return GInt(out)

    def _bin(self, other, f):
        if isinstance(other, GInt):
            out = {}
            for (v1, g1), (v2, g2) in itertools.product(self.alts.items(), other.alts.items()):
                nv = f(v1, v2)
                g = b_and(g1, g2)
                out[nv] = b_or(out[nv], g) if nv in out else g
            return GInt(out)
        if isinstance(other, int):
            return self._map(lambda v: f(v, other))
        return NotImplemented

    def __add__(self, o):
        return self._bin(o, lambda a, b: a + b)

    def __radd__(self, o):
        return self._bin(o, lambda a, b: b + a)

    def __sub__(self, o):
        return self._bin(o, lambda a, b: a - b)

    def __rsub__(self, o):
        return self._bin(o, lambda a, b: b - a)

    def __mul__(self, o):
        return self._bin(o, lambda a, b: a * b)

    def __rmul__(self, o):
        return self._bin(o, lambda a, b: b * a)

    def __lshift__(self, o):
        return self._bin(o, lambda a, b: a << b)

    def __or__(self, o):
        return self._bin(o, lambda a, b: a | b)

    def __ror__(self, o):
        return self._bin(o, lambda a, b: b | a)

    def __index__(self):
        # code under test needs a concrete int: fork over the alternatives
        items = list(self.alts.items())
        for v, g in items[:-1]:
            if forkexec.decide(zb(g)):
                return v
        return items[-1][0]

    __int__ = __index__


_OOB = []  # guards under which a real table was indexed out of range


class SymTable(list):
    """A real operator table; indexing with a GInt selects real entries under guards."""

    def __getitem__(self, idx):
        if isinstance(idx, GInt):
            pairs = []
            for v, g in idx.alts.items():
                try:
                    e = list.__getitem__(self, v)
                except IndexError:
                    _OOB.append(g)
                    continue
                pairs.append((g, e))
            return merge(pairs)
        return list.__getitem__(self, idx)


class SymIndexMap(dict):
    """`_state_to_index_map`: on a SymState return the guarded real indices."""

    def __getitem__(self, key):
        if isinstance(key, SymState):
            alts = {}
            from cirbo.core.circuit.operators import Undefined

            for conc, g in ((False, key.f), (True, key.t), (Undefined, key.u)):
                if g is False:
                    continue
                v = dict.__getitem__(self, conc)
                alts[v] = b_or(alts[v], g) if v in alts else g
            return GInt(alts)
        return dict.__getitem__(self, key)

    def get(self, key, default=None):
        if isinstance(key, SymState):
            return self[key]
        return dict.get(self, key, default)


_installed = False


def install():
    """Wrap the module-level containers of operators.py (idempotent)."""
    global _installed
    from cirbo.core.circuit import operators as ops

    wrapped = []
    for name, val in list(vars(ops).items()):
        if type(val) is list and val and all(_is_state(e) for e in val):
            setattr(ops, name, SymTable(val))
            wrapped.append(name)
        elif type(val) is dict and val and all(_is_state(k) for k in val):
            setattr(ops, name, SymIndexMap(val))
            wrapped.append(name)
    _installed = True
    return wrapped


def _is_state(e):
    from cirbo.core.circuit.operators import _Undefined

    return e is True or e is False or isinstance(e, _Undefined)


def oob_guards():
    return list(_OOB)


def clear_oob():
    _OOB.clear()


# ----------------------------------------------------------------------------
# Symbolic gate types


def make_sym_gate_type(name, candidates, selector):
    """A GateType whose operator is a mux over the real operators of `candidates`.

    selector: z3 Int (value i selects candidates[i]).  Works with the real
    evaluators because they reach the type only through `Gate.operator`.
    """
    from cirbo.core.circuit.gate import GateType

    def _op(*args):
        pairs = []
        for i, t in enumerate(candidates):
            pairs.append((selector == i, t.operator(*args)))
        return merge(pairs)

    return GateType(name, _op, False)


# ----------------------------------------------------------------------------
# Convenience drivers around the real evaluators


def fresh_inputs(labels, prefix="x", three_valued=False):
    """label -> SymState with fresh z3 variables."""
    out = {}
    for i, lab in enumerate(labels):
        t = z3.Bool(f"{prefix}{i}")
        if three_valued:
            u = z3.Bool(f"{prefix}{i}_u")
            out[lab] = SymState(z3.And(t, z3.Not(u)), u)
        else:
            out[lab] = SymState(t, False)
    return out


def eval_outputs(circuit, assignment):
    """Real `Circuit.evaluate_circuit_outputs` semantic, positional list of SymState.

    Uses the real lazy evaluator (the one `evaluate`/`get_truth_table` use).
    """
    res = circuit.evaluate_circuit(dict(assignment))
    return [lift(res[o]) for o in circuit.outputs]


def eval_all_gates(circuit, assignment):
    """All gates' terms through the real lazy evaluator started from every gate."""
    res = circuit.evaluate_circuit(dict(assignment), outputs=list(circuit.gates.keys()))
    return {k: lift(v) for k, v in res.items()}


def states_equal(a, b):
    """z3 Bool: the two gate states are the same state."""
    a, b = lift(a), lift(b)
    return z3.And(zb(a.t) == zb(b.t), zb(a.u) == zb(b.u))


def states_differ(a, b):
    return z3.Not(states_equal(a, b))


def model_bool(model, term):
    if term is True or term is False:
        return term
    return z3.is_true(model.eval(term, model_completion=True))


def state_value(model, s):
    from cirbo.core.circuit.operators import Undefined

    s = lift(s)
    if model_bool(model, s.u):
        return Undefined
    return model_bool(model, s.t)
