"""Symbolic strings for the forking executor: concrete length, symbolic characters.

Each character is a z3 integer code.  Operations that only move characters around
(slicing, concatenation, upper()) stay symbolic; operations whose *result shape*
depends on the characters (find, strip, split, ==, startswith) branch through
`forkexec.decide`, so the executor explores one path per feasible outcome instead
of one per string.
"""
import z3

from . import forkexec


def _code(ch):
    return z3.IntVal(ord(ch))


class SymStr:
    __slots__ = ("chars",)

    def __init__(self, chars):
        self.chars = list(chars)

    # -- construction -------------------------------------------------------
    @staticmethod
    def fresh(name, length):
        return SymStr([z3.Int(f"{name}_{i}") for i in range(length)])

    @staticmethod
    def lift(s):
        if isinstance(s, SymStr):
            return s
        return SymStr([_code(ch) for ch in s])

    # -- non-branching ------------------------------------------------------
    def __len__(self):
        return len(self.chars)

    def __add__(self, o):
        return SymStr(self.chars + SymStr.lift(o).chars)

    def __radd__(self, o):
        return SymStr(SymStr.lift(o).chars + self.chars)

    def __getitem__(self, idx):
        if isinstance(idx, slice):
            return SymStr(self.chars[idx])
        return SymStr([self.chars[idx]])

    def __iter__(self):
        return iter([SymStr([c]) for c in self.chars])

    def upper(self):
        return SymStr([z3.If(z3.And(c >= 97, c <= 122), c - 32, c) for c in self.chars])

    def lower(self):
        return SymStr([z3.If(z3.And(c >= 65, c <= 90), c + 32, c) for c in self.chars])

    def __format__(self, spec):
        return f"<sym:{len(self.chars)}>"

    def __str__(self):
        return self.__format__("")

    __repr__ = __str__

    # -- branching ----------------------------------------------------------
    def eq_term(self, o):
        o = SymStr.lift(o)
        if len(o) != len(self):
            return z3.BoolVal(False)
        return z3.And(*[a == b for a, b in zip(self.chars, o.chars)]) if self.chars else z3.BoolVal(True)

    def __eq__(self, o):
        if not isinstance(o, (str, SymStr)):
            return NotImplemented
        return forkexec.decide(self.eq_term(o))

    def __ne__(self, o):
        r = self.__eq__(o)
        return r if r is NotImplemented else not r

    def __hash__(self):
        raise TypeError("symbolic string used as a dictionary key")

    def __bool__(self):
        return len(self.chars) > 0

    def __contains__(self, sub):
        return self.find(sub) != -1

    def startswith(self, prefix):
        p = SymStr.lift(prefix)
        if len(p) > len(self):
            return False
        return forkexec.decide(SymStr(self.chars[: len(p)]).eq_term(p))

    def find(self, sub, start=0):
        s = SymStr.lift(sub)
        for i in range(start, len(self) - len(s) + 1):
            if forkexec.decide(SymStr(self.chars[i:i + len(s)]).eq_term(s)):
                return i
        return -1

    def _in_set(self, c, chars):
        return z3.Or(*[c == ord(ch) for ch in chars])

    def strip(self, chars=" \t\n\r\x0b\x0c"):
        lo, hi = 0, len(self.chars)
        while lo < hi and forkexec.decide(self._in_set(self.chars[lo], chars)):
            lo += 1
        while hi > lo and forkexec.decide(self._in_set(self.chars[hi - 1], chars)):
            hi -= 1
        return SymStr(self.chars[lo:hi])

    def split(self, sep):
        out, start = [], 0
        while True:
            i = self.find(sep, start)
            if i == -1:
                out.append(SymStr(self.chars[start:]))
                return out
            out.append(SymStr(self.chars[start:i]))
            start = i + len(sep)

    def concretize(self, model):
        return "".join(chr(model.eval(c, model_completion=True).as_long()) for c in self.chars)


def identifier_constraints(s, first_may_be_digit=True):
    """z3 constraints: every character is in [A-Za-z0-9_]."""
    cons = []
    for i, c in enumerate(s.chars):
        alpha = z3.Or(z3.And(c >= 65, c <= 90), z3.And(c >= 97, c <= 122), c == 95)
        digit = z3.And(c >= 48, c <= 57)
        cons.append(z3.Or(alpha, digit) if (first_may_be_digit or i > 0) else alpha)
    return cons
