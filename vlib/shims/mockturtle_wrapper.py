"""Environment stub for the missing `mockturtle_wrapper` C++ extension.

`enumerate_cuts(bench_text, cut_size, cut_limit, fanin_limit)` returns, per
node, a list of k-feasible cuts (lists of labels).  Documented behaviour
reproduced (tests/extensions/mockturtle_wrapper/test_cuts.py): cuts of a node
are the non-dominated merges of one cut per operand with at most `cut_size`
leaves, leaves in node-creation (topological) order, the trivial cut last,
at most `cut_limit` cuts per node (trivial cut always kept).

`VARIANT` (module attribute) selects an *admissible variation* of the family,
because C04 quantifies over "whatever valid family of cuts the enumerator
supplies": "canonical", "reversed", ("shuffled", seed), ("truncated", k).
"""
import itertools
import random
import re

VARIANT = "canonical"
CALLS = {"n": 0}

_gate_re = re.compile(r"^\s*([^\s=]+)\s*=\s*([A-Za-z0-9_]+)\s*\((.*)\)\s*$")
_in_re = re.compile(r"^\s*INPUT\s*\(\s*([^\s)]+)\s*\)\s*$")
_out_re = re.compile(r"^\s*OUTPUT\s*\(\s*([^\s)]+)\s*\)\s*$")


def _parse(bench):
    inputs, gates, outputs = [], {}, []
    order = []
    for line in bench.splitlines():
        line = line.split("#", 1)[0].strip()
        if not line:
            continue
        m = _in_re.match(line)
        if m and "=" not in line:
            inputs.append(m.group(1))
            continue
        m = _out_re.match(line)
        if m and "=" not in line:
            outputs.append(m.group(1))
            continue
        m = _gate_re.match(line)
        if m:
            ops = [o.strip() for o in m.group(3).split(",") if o.strip()]
            gates[m.group(1)] = ops
            order.append(m.group(1))
    return inputs, gates, order, outputs


def _topo(inputs, gates, order):
    pos = {}
    out = []
    for i in inputs:
        pos[i] = len(out)
        out.append(i)
    pending = list(order)
    # lorina creates nodes when all operands are known (deferred otherwise)
    progress = True
    while pending and progress:
        progress = False
        rest = []
        for g in pending:
            if all(o in pos for o in gates[g]):
                pos[g] = len(out)
                out.append(g)
                progress = True
            else:
                rest.append(g)
        pending = rest
    return out, pos


def enumerate_cuts(bench, cut_size, cut_limit, fanin_limit):
    CALLS["n"] += 1
    inputs, gates, order, _ = _parse(bench)
    topo, pos = _topo(inputs, gates, order)
    cuts = {}
    for node in topo:
        if node not in gates or not gates[node]:
            cuts[node] = [(node,)]
            continue
        ops = gates[node]
        if len(ops) > fanin_limit:
            cuts[node] = [(node,)]
            continue
        cand = set()
        for combo in itertools.product(*[cuts[o] for o in ops]):
            leaves = set()
            for c in combo:
                leaves.update(c)
            if len(leaves) <= cut_size:
                cand.add(tuple(sorted(leaves, key=lambda x: pos[x])))
        # remove dominated cuts (proper supersets of another candidate)
        cand_l = sorted(cand, key=lambda c: (len(c), [pos[x] for x in c]))
        kept = []
        for c in cand_l:
            sc = set(c)
            if any(set(k) < sc for k in kept):
                continue
            kept.append(c)
        if cut_limit is not None and len(kept) > max(cut_limit - 1, 0):
            kept = kept[: max(cut_limit - 1, 0)]
        cuts[node] = kept + [(node,)]
    result = {n: [list(c) for c in cs] for n, cs in cuts.items()}
    v = VARIANT
    if v == "reversed":
        result = {n: cs[:-1][::-1] + cs[-1:] for n, cs in result.items()}
        result = dict(reversed(list(result.items())))
    elif isinstance(v, tuple) and v[0] == "shuffled":
        rnd = random.Random(v[1])
        items = list(result.items())
        rnd.shuffle(items)
        result = {}
        for n, cs in items:
            body = cs[:-1]
            rnd.shuffle(body)
            result[n] = body + cs[-1:]
    elif isinstance(v, tuple) and v[0] == "truncated":
        result = {n: cs[:-1][: v[1]] + cs[-1:] for n, cs in result.items()}
    return result
