"""Stub of pysat.formula: CNF and IDPool with the subset of the API cirbo uses."""
import collections


class IDPool:
    def __init__(self, start_from=1, occupied=()):
        self.top = start_from - 1
        self.obj2id = {}
        self.id2obj = {}

    def id(self, obj=None):
        if obj is not None and obj in self.obj2id:
            return self.obj2id[obj]
        self.top += 1
        if obj is not None:
            self.obj2id[obj] = self.top
            self.id2obj[self.top] = obj
        return self.top

    def obj(self, vid):
        return self.id2obj.get(vid)


class CNF:
    def __init__(self, from_clauses=None, **kwargs):
        self.clauses = []
        self.nv = 0
        if from_clauses is not None:
            self.extend(from_clauses)

    def append(self, clause):
        clause = list(clause)
        for lit in clause:
            self.nv = max(self.nv, abs(lit))
        self.clauses.append(clause)

    def extend(self, clauses):
        for c in clauses:
            self.append(c)

    def __iter__(self):
        return iter(self.clauses)

    def __len__(self):
        return len(self.clauses)
