"""Stub of pysat.solvers.Solver backed by z3 (sound and complete; any model).

`MODEL_SEED` (module attribute, or env VERIF_SAT_SEED) randomises the phase so
that callers can be exercised with *different* admissible models.
"""
import os

MODEL_SEED = None
CALLS = {"solve": 0, "sat": 0, "unsat": 0}


class Solver:
    def __init__(self, name="cadical195", bootstrap_with=None, **kwargs):
        self._name = name
        self._clauses = []
        self._model = None
        self._status = None
        if bootstrap_with is not None:
            self.append_formula(bootstrap_with)

    def __enter__(self):
        return self

    def __exit__(self, *exc):
        self.delete()
        return False

    def add_clause(self, clause, no_return=True):
        self._clauses.append(list(clause))

    def append_formula(self, formula, no_return=True):
        clauses = getattr(formula, "clauses", formula)
        for c in clauses:
            self._clauses.append(list(c))

    def solve(self, assumptions=()):
        import z3

        CALLS["solve"] += 1
        ctx = z3.Context()
        s = z3.Solver(ctx=ctx)
        seed = MODEL_SEED
        if seed is None and os.environ.get("VERIF_SAT_SEED"):
            seed = int(os.environ["VERIF_SAT_SEED"])
        if seed is not None:
            s.set("random_seed", int(seed) & 0x7FFFFFFF)
            s.set("phase_selection", 5)
        nv = 0
        for c in self._clauses:
            for lit in c:
                nv = max(nv, abs(lit))
        for a in assumptions:
            nv = max(nv, abs(a))
        vs = [None] + [z3.Bool(f"v{i}", ctx=ctx) for i in range(1, nv + 1)]

        def lit(l):
            return vs[l] if l > 0 else z3.Not(vs[-l])

        for c in self._clauses:
            if len(c) == 0:
                s.add(z3.BoolVal(False, ctx=ctx))
            elif len(c) == 1:
                s.add(lit(c[0]))
            else:
                s.add(z3.Or(*[lit(l) for l in c]))
        for a in assumptions:
            s.add(lit(a))
        r = s.check()
        if str(r) == "sat":
            m = s.model()
            self._model = [
                i if z3.is_true(m.eval(vs[i], model_completion=True)) else -i
                for i in range(1, nv + 1)
            ]
            self._status = True
            CALLS["sat"] += 1
        elif str(r) == "unsat":
            self._model = None
            self._status = False
            CALLS["unsat"] += 1
        else:  # pragma: no cover - propositional logic is decidable
            raise RuntimeError("z3 returned unknown on a propositional formula")
        return self._status

    def get_model(self):
        return self._model if self._status else None

    def delete(self):
        self._clauses = []


class SolverNames:
    cadical195 = ("cadical195",)
