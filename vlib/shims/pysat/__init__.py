"""Environment stub for the missing `python-sat` C extension (see DESIGN.md §1).

Contract modelled: a sound and complete SAT solver returning *some* model.
`solve()` is discharged by z3 (fresh context per call so that it survives the
`fork` used by `CircuitFinderSat.find_circuit(time_limit=...)`).
"""
__version__ = "verif-shim"
