"""Recording, evidence files, replays, known findings, exit codes."""
import hashlib
import json
import logging
import multiprocessing as mp
import os
import subprocess
import sys
import time
import traceback

import z3

VERIF = os.path.dirname(os.path.dirname(os.path.abspath(__file__)))
EXIT_OK, EXIT_VIOLATION, EXIT_HARNESS = 0, 1, 3
_LOG = logging.getLogger("cirbo")
_LOG.addHandler(logging.NullHandler())


def raised_in_library(e):
    """True if the innermost frame of the exception is code of the repository under test."""
    from vlib import env

    tb, last = e.__traceback__, None
    while tb is not None:
        tb, last = tb.tb_next, tb
    return last is not None and os.path.abspath(last.tb_frame.f_code.co_filename).startswith(os.path.abspath(env.REPO) + os.sep)


class Partial:
    """Picklable record of what a unit of work covered."""

    def __init__(self):
        self.cases = 0
        self.case_hashes = set()
        self.nontrivial_hashes = set()
        self.queries = {"unsat": 0, "sat": 0, "unknown": 0}
        self.solver_s = 0.0
        self.violations = []  # dicts: key, what, replay
        self.samples = []
        self.canaries_run = 0
        self.canaries_fired = 0
        self.notes = []
        self.inconclusive = []
        self.counters = {}
        self.errors = []

    # -- recording ---------------------------------------------------------
    def case(self, desc, nontrivial=True, sample=None):
        self.cases += 1
        h = hashlib.sha1(repr(desc).encode()).hexdigest()[:16]
        # environment dimension: the library must behave the same whatever the logging level, so about half
        # of the cases (chosen by the case's own hash) run with debug logging enabled for the package;
        # replays restore the level that was in effect
        _LOG.setLevel(logging.DEBUG if int(h[-1], 16) % 2 else logging.WARNING)
        self.case_hashes.add(h)
        if nontrivial:
            self.nontrivial_hashes.add(h)
        if sample is not None and len(self.samples) < 6:
            self.samples.append(sample)

    def count(self, name, n=1):
        self.counters[name] = self.counters.get(name, 0) + n

    def note(self, text):
        if text not in self.notes and len(self.notes) < 60:
            self.notes.append(text)

    def check(self, solver_or_formulas, timeout_ms=60000, label=""):
        """Run a z3 query; returns ('unsat'|'sat'|'unknown', model|None)."""
        if isinstance(solver_or_formulas, z3.Solver):
            s = solver_or_formulas
        else:
            s = z3.Solver()
            for f in solver_or_formulas:
                s.add(f)
        s.set("timeout", int(timeout_ms))
        t0 = time.time()
        r = str(s.check())
        dt = time.time() - t0
        self.solver_s += dt
        if r not in ("sat", "unsat"):
            r = "unknown"
            self.inconclusive.append(f"{label}: unknown after {dt:.1f}s")
        self.queries[r] += 1
        return r, (s.model() if r == "sat" else None)

    def canary(self, fired):
        """Vacuity guard.  A single canary may legitimately stay silent in a corner case (e.g. the
        weakened formula is still unsatisfiable for that instance); the run is declared broken only
        if canaries were attempted and *none* fired (see finish)."""
        self.canaries_run += 1
        if fired:
            self.canaries_fired += 1
        else:
            self.note("a canary stayed silent (counted in canaries.run/fired)")

    def violation(self, key, what, replay_src):
        self.violations.append({"key": key, "what": what, "replay": replay_src, "loglevel": _LOG.level})

    def error(self, text):
        self.errors.append(text)

    def merge(self, other):
        self.cases += other.cases
        self.case_hashes |= other.case_hashes
        self.nontrivial_hashes |= other.nontrivial_hashes
        for k in self.queries:
            self.queries[k] += other.queries[k]
        self.solver_s += other.solver_s
        self.violations += other.violations
        for s in other.samples:
            if len(self.samples) < 8:
                self.samples.append(s)
        self.canaries_run += other.canaries_run
        self.canaries_fired += other.canaries_fired
        for n in other.notes:
            self.note(n)
        self.inconclusive += other.inconclusive
        for k, v in other.counters.items():
            self.counters[k] = self.counters.get(k, 0) + v
        self.errors += other.errors


def _worker(args):
    func, item, tier, seed = args
    p = Partial()
    try:
        func(p, item, tier, seed)
    except BaseException as e:  # noqa: BLE001
        if isinstance(e, KeyboardInterrupt):
            raise
        p.error(f"worker crashed on {item!r:.200}: {type(e).__name__}: {e}\n{traceback.format_exc()[-1500:]}")
    return p


class Report(Partial):
    def __init__(self, pid, tier, seed, level, technique=""):
        super().__init__()
        self.pid, self.tier, self.seed, self.level = pid, tier, seed, level
        self.technique = technique
        self.t0 = time.time()
        self.functions = []
        self.bounds = {}
        self.outside = []
        self.assumptions = []
        self.rule = ""
        self.explanation = ""
        self.exhaustive = False

    def pmap(self, func, items, procs=None, chunksize=1, may_fork=False):
        """Run func(partial, item, tier, seed) over items on all cores; merge.
        may_fork=True uses non-daemonic workers (the code under test forks itself)."""
        items = list(items)
        procs = procs or min(os.cpu_count() or 1, max(1, len(items)))
        if may_fork and procs > 1 and len(items) > 1 and not os.environ.get("VERIF_SERIAL"):
            import concurrent.futures as cf

            with cf.ProcessPoolExecutor(max_workers=procs, mp_context=mp.get_context("fork")) as ex:
                for p in ex.map(_worker, [(func, it, self.tier, self.seed) for it in items]):
                    self.merge(p)
            return
        if os.environ.get("VERIF_SERIAL") or procs == 1 or len(items) <= 1:
            for it in items:
                self.merge(_worker((func, it, self.tier, self.seed)))
            return
        ctx = mp.get_context("fork")
        with ctx.Pool(procs) as pool:
            for p in pool.imap_unordered(
                _worker, [(func, it, self.tier, self.seed) for it in items], chunksize
            ):
                self.merge(p)

    # -- finishing ---------------------------------------------------------
    def _known(self):
        path = os.path.join(VERIF, "known_findings.json")
        try:
            with open(path) as f:
                data = json.load(f)
        except FileNotFoundError:
            return {}
        return {
            e["key"]: e for e in data.get("findings", []) if e.get("property") == self.pid
        }

    def _write_replay(self, idx, v, level=None):
        d = os.path.join(os.environ.get("VERIF_REPLAY_DIR", os.path.join(VERIF, "replays")), self.pid)
        os.makedirs(d, exist_ok=True)
        safe = "".join(ch if ch.isalnum() or ch in "-_." else "_" for ch in v["key"])[:80]
        path = os.path.join(d, f"{idx:02d}_{safe}.py")
        hs = os.environ.get("PYTHONHASHSEED")
        header = (
            "# Replay of a counterexample found by /verif against the real code.\n"
            f"# property={self.pid} key={v['key']}\n# {v['what']}\n"
            "# exit 1 = violation reproduces on the current /repo tree, 0 = it does not.\n"
            "import sys, os\n"
            + (f"if os.environ.get('PYTHONHASHSEED') != {hs!r}:  # set iteration order is part of the counterexample\n"
               f"    os.execve(sys.executable, [sys.executable] + sys.argv, dict(os.environ, PYTHONHASHSEED={hs!r}))\n" if hs is not None else "")
            + f"sys.path.insert(0, {VERIF!r})\n"
            "from vlib import env; env.setup()\n"
            f"import logging; logging.getLogger('cirbo').setLevel({int(level if level is not None else v.get('loglevel') or 0)})  # logging level the counterexample was found under\n"
        )
        with open(path, "w") as f:
            f.write(header + v["replay"] + "\n")
        return path

    def _run_replay(self, path):
        try:
            r = subprocess.run(
                [sys.executable, path], capture_output=True, text=True, timeout=600,
                cwd=VERIF, env=dict(os.environ, PYTHONDONTWRITEBYTECODE="1"),
            )
            return r.returncode, (r.stdout + r.stderr)[-2000:]
        except subprocess.TimeoutExpired:
            return -1, "replay timed out"

    def finish(self):
        known = self._known()
        # de-duplicate by key, keep the first of each
        uniq = {}
        for v in self.violations:
            uniq.setdefault(v["key"], v)
        real, known_hit, bogus = [], [], []
        for i, (key, v) in enumerate(sorted(uniq.items())):
            path = self._write_replay(i, v)
            rc, out = self._run_replay(path)
            if rc != 1:
                # the level is switched when a case is announced, which some checks do after calling the code:
                # the counterexample may belong to the other logging level
                other = logging.WARNING if int(v.get("loglevel") or 0) == logging.DEBUG else logging.DEBUG
                self._write_replay(i, v, level=other)
                rc2, out2 = self._run_replay(path)
                if rc2 == 1:
                    rc, out = rc2, out2
                else:
                    self._write_replay(i, v)
            v["replay_path"], v["replay_rc"] = path, rc
            if rc == 1:
                if key in known:
                    known_hit.append(v)
                else:
                    real.append(v)
            else:
                v["replay_out"] = out
                bogus.append(v)
        for v in known_hit:
            print(f"KNOWN-FINDING: property={self.pid} {v['key']}: {v['what']}")
        for v in real:
            print(f"VIOLATION property={self.pid} replay={v['replay_path']}")
            print(f"  key={v['key']}: {v['what']}")
        for v in bogus:
            print(
                f"HARNESS-ERROR property={self.pid}: counterexample {v['key']} did not "
                f"reproduce (rc={v['replay_rc']}): {v['what']}\n{v.get('replay_out','')}"
            )
        # violations found (and replayed) by child runs under other hash seeds
        seen_keys = {v["key"] for v in real} | {v["key"] for v in known_hit}
        for line, keyline in getattr(self, "child_violations", []):
            key = keyline.strip()[4:].split(": ")[0] if keyline.strip().startswith("key=") else line
            if key in seen_keys:
                continue
            seen_keys.add(key)
            if key in known:
                print(f"KNOWN-FINDING: property={self.pid} {key}: (found under another PYTHONHASHSEED) {keyline.strip()[:300]}")
                known_hit.append({"key": key, "what": keyline})
            else:
                print(line)
                print(keyline)
                real.append({"key": key, "what": keyline})
        if self.canaries_run > 0 and self.canaries_fired == 0:
            self.errors.append("no canary fired: the harness may be vacuous")
        for e in self.errors:
            print(f"HARNESS-ERROR property={self.pid}: {e}")
        decided = self.queries["unsat"] + self.queries["sat"]
        wall = time.time() - self.t0
        distinct = len(self.nontrivial_hashes)
        cov = {
            "evaluations": max(self.cases, 1),
            "distinct_nontrivial": distinct,
            "rule": self.rule,
            "samples": self.samples or ["(none recorded)"],
            "programs": max(len(self.case_hashes), 1),
            "disagreements_checked": self.queries["unsat"] + self.queries["sat"],
            "explanation": self.explanation,
            "exhaustive": self.exhaustive,
            "technique": self.technique,
            "functions_encoded": self.functions,
            "bounds": self.bounds,
            "outside_claim": self.outside,
            "queries": dict(self.queries),
            "solver_s": round(self.solver_s, 2),
            "canaries": {"run": self.canaries_run, "fired": self.canaries_fired},
            "counters": self.counters,
            "inconclusive": self.inconclusive[:40],
            "notes": self.notes,
            "known_findings_hit": [v["key"] for v in known_hit],
            "violation_keys": [v["key"] for v in real],
        }
        ev = {
            "property_id": self.pid,
            "tier": self.tier,
            "seed": int(self.seed),
            "level": self.level,
            "coverage": cov,
            "assumptions": self.assumptions,
            "wall_s": round(wall, 2),
            "violations": len(real),
        }
        evdir = os.environ.get("VERIF_EVIDENCE_DIR", os.path.join(VERIF, "evidence"))
        os.makedirs(evdir, exist_ok=True)
        with open(os.path.join(evdir, f"{self.pid}.json"), "w") as f:
            json.dump(ev, f, indent=1, default=str)
        print(
            f"[{self.pid}] tier={self.tier} cases={self.cases} distinct={distinct} "
            f"queries={self.queries} canaries={self.canaries_fired}/{self.canaries_run} "
            f"solver={self.solver_s:.1f}s wall={wall:.1f}s inconclusive={len(self.inconclusive)} "
            f"known={len(known_hit)} violations={len(real)}"
        )
        if real:
            return EXIT_VIOLATION
        if bogus or self.errors:
            return EXIT_HARNESS
        if decided == 0 and self.cases == 0:
            print(f"HARNESS-ERROR property={self.pid}: nothing was decided")
            return EXIT_HARNESS
        return EXIT_OK
