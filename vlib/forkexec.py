"""E-F: a small forking symbolic executor.

Real cirbo code is run on proxy objects.  Whenever the code *branches* on a
proxy (``__bool__``, ``__index__``, comparison used in an ``if``) the proxy calls
``decide(cond)``; the executor answers from a decision script and re-runs the
function until every feasible decision sequence (feasibility = z3 on the path
condition) has been explored.  ``explore`` finally asks z3 that the disjunction
of the explored path conditions is valid, so nothing was skipped.
"""
import time

import z3

_current = None


class NoExplorer(RuntimeError):
    """A proxy was concretised outside of an exploration (harness error)."""


class PathLimit(RuntimeError):
    pass


class _Run:
    def __init__(self, script, base):
        self.script = script  # list of [taken(bool), has_alternative(bool)]
        self.pos = 0
        self.pc = list(base)
        self.solver = z3.Solver()
        for b in base:
            self.solver.add(b)
        self.queries = 0
        self.solver_s = 0.0

    def decide(self, cond):
        """Return a Python bool for symbolic condition `cond` on this path."""
        if cond is True or cond is False:
            return cond
        cond = z3.simplify(cond)
        if z3.is_true(cond):
            return True
        if z3.is_false(cond):
            return False
        if self.pos < len(self.script):
            taken = self.script[self.pos][0]
        else:
            self.queries += 2
            _t0 = time.time()
            self.solver.push()
            self.solver.add(cond)
            can_t = str(self.solver.check()) != "unsat"
            self.solver.pop()
            self.solver.push()
            self.solver.add(z3.Not(cond))
            can_f = str(self.solver.check()) != "unsat"
            self.solver.pop()
            self.solver_s += time.time() - _t0
            if can_t and can_f:
                self.script.append([True, True])
                taken = True
            elif can_t:
                self.script.append([True, False])
                taken = True
            else:
                self.script.append([False, False])
                taken = False
        self.pos += 1
        c = cond if taken else z3.Not(cond)
        self.pc.append(c)
        self.solver.add(c)
        return taken


def decide(cond):
    if _current is None:
        raise NoExplorer("symbolic value concretised outside forkexec.explore")
    return _current.decide(cond)


def active():
    return _current is not None


class Path:
    __slots__ = ("pc", "result", "exc", "decisions")

    def __init__(self, pc, result, exc, decisions):
        self.pc = pc
        self.result = result
        self.exc = exc
        self.decisions = decisions

    def cond(self):
        return z3.And(*self.pc) if self.pc else z3.BoolVal(True)


def explore(fn, base=(), max_paths=100000, catch=(Exception,), check_cover=True, max_seconds=None):
    """Run `fn()` on every feasible decision path.  Returns (paths, stats)."""
    global _current
    script = []
    paths = []
    queries = 0
    solver_s = 0.0
    started = time.time()
    while True:
        if max_seconds is not None and time.time() - started > max_seconds:
            raise PathLimit(f"more than {max_seconds} s of paths")
        run = _Run(script, base)
        prev = _current
        _current = run
        try:
            try:
                res, exc = fn(), None
            except catch as e:  # noqa: BLE001 - the explored code may raise anything
                res, exc = None, e
        finally:
            _current = prev
        queries += run.queries
        solver_s += run.solver_s
        paths.append(Path(run.pc[len(base):], res, exc, [d[0] for d in script[: run.pos]]))
        if len(paths) > max_paths:
            raise PathLimit(f"more than {max_paths} paths")
        # backtrack
        del script[run.pos:]
        while script and not script[-1][1]:
            script.pop()
        if not script:
            break
        script[-1] = [False, False]
    covered = None
    if check_cover:
        s = z3.Solver()
        for b in base:
            s.add(b)
        s.add(z3.Not(z3.Or(*[p.cond() for p in paths])))
        _t0 = time.time()
        covered = str(s.check()) == "unsat"
        solver_s += time.time() - _t0
        queries += 1
    return paths, {"paths": len(paths), "queries": queries, "covered": covered, "solver_s": solver_s}
