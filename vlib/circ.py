"""Plain-data views of cirbo circuits: netlists, snapshots, source, well-formedness."""
import collections

from . import env

env.setup()


def netlist_of(circuit):
    """label -> (type name, operands)  (plain data, used by E-R)."""
    return {
        lab: (g.gate_type.name, tuple(g.operands)) for lab, g in circuit.gates.items()
    }


def snapshot(circuit):
    """Everything observable about a circuit, as plain hashable data."""
    return (
        tuple((lab, g.label, g.gate_type.name, tuple(g.operands)) for lab, g in circuit._gates.items()),
        tuple(circuit._inputs),
        tuple(circuit._outputs),
        tuple(sorted((k, tuple(sorted(v))) for k, v in circuit._gate_to_users.items() if v)),
        tuple(
            (name, b.name, tuple(b.inputs), tuple(b.gates), tuple(b.outputs))
            for name, b in circuit._blocks.items()
        ),
    )


def circ_src(circuit, var="c"):
    """Python source that rebuilds `circuit` exactly (storage order, interface, blocks)
    through the public API where possible.  Assumes well-formed circuit."""
    lines = [
        "from cirbo.core.circuit import Circuit, Gate",
        "from cirbo.core.circuit import gate as G",
        f"{var} = Circuit()",
    ]
    for lab, g in circuit._gates.items():
        lines.append(
            f"{var}._emplace_gate({lab!r}, G.{g.gate_type.name}, {tuple(g.operands)!r})"
        )
    lines.append(f"{var}.set_inputs({list(circuit._inputs)!r})")
    lines.append(f"{var}.set_outputs({list(circuit._outputs)!r})")
    for name, b in circuit._blocks.items():
        lines.append(
            f"{var}.make_block({name!r}, {list(b.gates)!r}, {list(b.outputs)!r}, {list(b.inputs)!r})"
        )
    from cirbo.core.circuit import gate as _G

    if any(g.gate_type is not getattr(_G, g.gate_type.name, None) for g in circuit._gates.values()):
        # the circuit went through deepcopy / pickle: its gate types are equal to, not identical with, the constants
        lines.append(f"import copy\n{var} = copy.deepcopy({var})")
    return "\n".join(lines)


def describe(circuit):
    """Short one-line text of a circuit (for samples)."""
    parts = []
    for lab, g in circuit._gates.items():
        if g.gate_type.name == "INPUT":
            continue
        parts.append(f"{lab}={g.gate_type.name}({','.join(g.operands)})")
    if len(parts) > 60:
        parts = parts[:30] + [f"... ({len(parts) - 40} more gates) ..."] + parts[-10:]
    return f"in={list(circuit._inputs)} {' '.join(parts)} out={list(circuit._outputs)}"


# ---------------------------------------------------------------------------
# Well-formedness (the invariant of C02), computed independently of cirbo's
# own traversal code.


def wf_problems(circuit, check_topsort=True):
    """Return a list of human-readable well-formedness violations (empty = WF)."""
    probs = []
    gates = circuit._gates
    for lab, g in gates.items():
        if g.label != lab:
            probs.append(f"gate stored under {lab!r} is labelled {g.label!r}")
        for o in g.operands:
            if o not in gates:
                probs.append(f"operand {o!r} of {lab!r} does not exist")
    for o in circuit._outputs:
        if o not in gates:
            probs.append(f"output {o!r} does not exist")
    # users index = multiset inverse of operand relation
    expect = collections.defaultdict(collections.Counter)
    for lab, g in gates.items():
        for o in g.operands:
            expect[o][lab] += 1
    for lab in gates:
        try:
            got = collections.Counter(circuit.get_gate_users(lab))
        except Exception as e:  # noqa: BLE001
            probs.append(f"get_gate_users({lab!r}) raised {type(e).__name__}")
            continue
        if got != expect.get(lab, collections.Counter()):
            probs.append(
                f"users of {lab!r}: reported {sorted(got.elements())} expected {sorted(expect.get(lab, collections.Counter()).elements())}"
            )
    for lab, users in circuit._gate_to_users.items():
        if lab not in gates and users:
            probs.append(f"users index has entry for absent gate {lab!r}")
    # inputs list = INPUT gates, each once
    real_inputs = [lab for lab, g in gates.items() if g.gate_type.name == "INPUT"]
    if sorted(circuit._inputs) != sorted(real_inputs):
        probs.append(f"inputs {list(circuit._inputs)} != INPUT gates {real_inputs}")
    # acyclic (own DFS over operands)
    color = {}
    cyclic = False
    for root in gates:
        if root in color:
            continue
        stack = [(root, iter(gates[root].operands))]
        color[root] = 1
        while stack:
            lab, it = stack[-1]
            adv = False
            for o in it:
                if o not in gates:
                    continue
                if color.get(o) == 1:
                    cyclic = True
                elif o not in color:
                    color[o] = 1
                    stack.append((o, iter(gates[o].operands)))
                    adv = True
                    break
            if not adv:
                color[lab] = 2
                stack.pop()
    if cyclic:
        probs.append("operand graph has a cycle")
    # blocks
    for name, b in circuit._blocks.items():
        for kind, labs in (("gate", b.gates), ("input", b.inputs), ("output", b.outputs)):
            for lab in labs:
                if lab not in gates:
                    probs.append(f"block {name!r} {kind} {lab!r} does not exist")
        if b.name != name:
            probs.append(f"block stored under {name!r} is named {b.name!r}")
        if b.circuit_owner is not circuit:
            probs.append(f"block {name!r} owned by another circuit")
    if check_topsort and not cyclic and not probs:
        probs += topsort_problems(circuit)
    return probs


def topsort_problems(circuit):
    probs = []
    gates = circuit._gates
    for inverse in (True, False):
        try:
            order = [g.label for g in circuit.top_sort(inverse=inverse)]
        except Exception as e:  # noqa: BLE001
            probs.append(f"top_sort(inverse={inverse}) raised {type(e).__name__}: {e}")
            continue
        if sorted(order) != sorted(gates):
            probs.append(
                f"top_sort(inverse={inverse}) yielded {len(order)} gates ({len(set(order))} distinct) of {len(gates)}"
            )
            continue
        pos = {lab: i for i, lab in enumerate(order)}
        for lab, g in gates.items():
            for o in g.operands:
                if inverse and not pos[o] < pos[lab]:
                    probs.append(f"top_sort(inverse=True): {lab} before its operand {o}")
                if not inverse and not pos[o] > pos[lab]:
                    probs.append(f"top_sort(inverse=False): {lab} after its operand {o}")
    return probs
