"""E-R: reference (denotational, two-valued) semantics written directly in z3.

Written from the text of property C01; never imports cirbo.  A netlist is a
plain dict  label -> (type_name, (operand labels...)).
"""
import functools

import z3

UNARY = {"NOT", "IFF"}
NARY = {"AND", "OR", "XOR", "NAND", "NOR", "NXOR"}
BINARY_ONLY = {"GT", "LT", "GEQ", "LEQ", "LNOT", "RNOT", "LIFF", "RIFF"}
CONST = {"ALWAYS_TRUE", "ALWAYS_FALSE"}
ALL_OPERATOR_TYPES = sorted(UNARY | NARY | BINARY_ONLY | CONST)


def _xor(args):
    return functools.reduce(lambda a, b: z3.Xor(a, b), args)


def ref_op(name, args):
    """The one fixed Boolean function of gate type `name` applied to z3 Bools."""
    args = [z3.BoolVal(a) if isinstance(a, bool) else a for a in args]
    if name == "NOT":
        (a,) = args
        return z3.Not(a)
    if name == "IFF":
        (a,) = args
        return a
    if name == "AND":
        return z3.And(*args)
    if name == "OR":
        return z3.Or(*args)
    if name == "XOR":
        return _xor(args)
    if name == "NAND":
        return z3.Not(z3.And(*args))
    if name == "NOR":
        return z3.Not(z3.Or(*args))
    if name == "NXOR":
        return z3.Not(_xor(args))
    if name == "ALWAYS_TRUE":
        return z3.BoolVal(True)
    if name == "ALWAYS_FALSE":
        return z3.BoolVal(False)
    a, b = args
    if name == "GT":
        return z3.And(a, z3.Not(b))
    if name == "LT":
        return z3.And(z3.Not(a), b)
    if name == "GEQ":
        return z3.Or(a, z3.Not(b))
    if name == "LEQ":
        return z3.Or(z3.Not(a), b)
    if name == "LNOT":
        return z3.Not(a)
    if name == "RNOT":
        return z3.Not(b)
    if name == "LIFF":
        return a
    if name == "RIFF":
        return b
    raise KeyError(name)


def ref_op_py(name, args):
    """Same function on Python bools (for replays / concrete cross-checks)."""
    r = z3.simplify(ref_op(name, [z3.BoolVal(bool(a)) for a in args]))
    return z3.is_true(r)


def denote(netlist, input_terms):
    """label -> z3 Bool for every gate reachable by definition order-free recursion."""
    memo = dict(input_terms)
    limit = 4 * sum(len(ops) + 1 for _, ops in netlist.values()) + 64
    # iterative post-order to avoid recursion limits
    for root in netlist:
        stack = [root]
        while stack:
            if len(stack) > limit:
                raise ValueError("cyclic netlist: the reference semantics is defined for acyclic circuits only")
            lab = stack[-1]
            if lab in memo:
                stack.pop()
                continue
            tname, ops = netlist[lab]
            if tname == "INPUT":
                raise KeyError(f"input {lab} has no term")
            missing = [o for o in ops if o not in memo]
            if missing:
                stack.extend(missing)
                continue
            memo[lab] = ref_op(tname, [memo[o] for o in ops])
            stack.pop()
    return memo


def bv_of_bits(bits_lsb_first, width=None):
    """Unsigned value of a little-endian list of z3 Bools as a bit-vector."""
    n = len(bits_lsb_first)
    width = width or max(n, 1)
    if n == 0:
        return z3.BitVecVal(0, width)
    parts = [z3.If(b, z3.BitVecVal(1, 1), z3.BitVecVal(0, 1)) if not isinstance(b, bool)
             else z3.BitVecVal(int(b), 1) for b in bits_lsb_first]
    v = parts[0] if n == 1 else z3.Concat(*reversed(parts))
    if width > n:
        v = z3.ZeroExt(width - n, v)
    elif width < n:
        v = z3.Extract(width - 1, 0, v)
    return v
