"""Import cirbo from /repo's *current working tree* with the two missing C
extensions replaced by environment stubs (see DESIGN.md §1).

Nothing is cached between runs: bytecode writing is disabled and /repo is put
first on sys.path, so every check run re-reads the current sources.
"""
import importlib
import os
import sys

sys.dont_write_bytecode = True
REPO = os.environ.get("VERIF_REPO", "/repo")
VERIF = os.path.dirname(os.path.dirname(os.path.abspath(__file__)))

_done = False


def setup():
    global _done
    if _done:
        return
    _done = True
    os.environ.setdefault("CIRBO_VERIF", "1")
    if REPO not in sys.path:
        sys.path.insert(0, REPO)
    shim_dir = os.path.join(VERIF, "vlib", "shims")
    # shims only if the real extension is absent
    try:
        import pysat.solvers  # noqa: F401
    except Exception:
        for k in [k for k in sys.modules if k == "pysat" or k.startswith("pysat.")]:
            del sys.modules[k]
        sys.path.insert(1, shim_dir)
        import pysat.formula  # noqa: F401
        import pysat.solvers  # noqa: F401
    try:
        import mockturtle_wrapper  # noqa: F401
    except Exception:
        if shim_dir not in sys.path:
            sys.path.insert(1, shim_dir)
        import mockturtle_wrapper  # noqa: F401
    import logging

    # the package's log records are swallowed here (nothing is printed), but logging itself stays enabled:
    # the level of the package logger is an environment dimension that report.Partial.case varies
    lg = logging.getLogger("cirbo")
    lg.addHandler(logging.NullHandler())
    lg.propagate = False


def stubs_in_use():
    setup()
    out = []
    import pysat
    import mockturtle_wrapper

    if getattr(pysat, "__version__", "") == "verif-shim":
        out.append(
            "pysat (CNF/IDPool/Solver) replaced by vlib/shims/pysat: z3-backed sound+complete SAT solver stub"
        )
    if "shims" in (getattr(mockturtle_wrapper, "__file__", "") or ""):
        out.append(
            "mockturtle_wrapper.enumerate_cuts replaced by vlib/shims/mockturtle_wrapper.py: k-feasible cut enumerator stub"
        )
    return out


def source_of(modname):
    """Return current source text of a repo module (for evidence / recompiled twins)."""
    setup()
    path = os.path.join(REPO, *modname.split(".")) + ".py"
    with open(path) as f:
        return f.read()
