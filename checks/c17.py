"""C17 — shipped circuit databases are correct and lookups return the requested function.

1. every entry (thorough: all 2 x 349,724; quick: all 2-input entries + seed-rotated stride):
   decodes, well formed, gate types within the basis, key == function (z3 on real-evaluator
   terms, batched);
2. normalisation algebra for *every* table of a shape: the real NormalizationInfo runs on a
   fully symbolic table under the forking executor; denormalize applied to a circuit whose
   outputs are opaque inputs standing for the normalised rows must give back the table;
3. key construction of look-ups == key format of the entries;
4. end-to-end look-ups, including don't-cares.
"""
import itertools
import math
import random

import z3

from vlib import circ, forkexec, symeval
from checks.common import REPLAY_PRELUDE

LEVEL = "other"
TECHNIQUE = "bounded SMT: z3 on real-evaluator terms of every decoded entry (batched); forking symbolic execution of NormalizationInfo over a fully symbolic table with z3 path coverage"
USES_STUBS = True

from cirbo.circuits_db import db as DB  # noqa: E402
from cirbo.circuits_db.circuits_encoding import decode_circuit  # noqa: E402
from cirbo.circuits_db.data_utils import DEFAULT_AIG_DB_PATH, DEFAULT_XAIG_DB_PATH  # noqa: E402
from cirbo.circuits_db.normalization import NormalizationInfo  # noqa: E402
from cirbo.core.circuit import Circuit, gate as G  # noqa: E402
from cirbo.core.logic import DontCare  # noqa: E402

PATHS = {"AIG": DEFAULT_AIG_DB_PATH, "XAIG": DEFAULT_XAIG_DB_PATH}
BASIS = {
    "AIG": {"INPUT", "NOT", "AND", "OR", "NAND", "NOR", "GT", "LT", "GEQ", "LEQ"},
    "XAIG": {"INPUT", "NOT", "AND", "OR", "NAND", "NOR", "GT", "LT", "GEQ", "LEQ", "XOR", "NXOR"},
}
_dbs = {}


def get_db(name):
    if name not in _dbs:
        d = DB.CircuitsDatabase(PATHS[name])
        d.open()
        _dbs[name] = d
    return _dbs[name]


def key_func(bits, xs):
    """z3 term of the function whose truth table (input 0 = MSB of the column index) is `bits`."""
    def rec(lo, hi, k):
        if hi - lo == 1:
            return z3.BoolVal(bits[lo] == "1")
        mid = (lo + hi) // 2
        return z3.If(xs[k], rec(mid, hi, k + 1), rec(lo, mid, k + 1))
    return rec(0, len(bits), 0)


# ------------------------------------------------------------------ 1
def entries_unit(p, item, tier, seed):
    name, start, stride, limit, two_input_only = item
    db = get_db(name)
    keys = list(db._dict.keys())
    if two_input_only:
        sel = [k for k in keys if len(k.split("_")[0]) == 4]
    else:
        sel = keys[start::stride][:limit]
    batch, meta = [], []
    xs_cache = {n: [z3.Bool(f"x{i}") for i in range(n)] for n in (1, 2, 3, 4)}

    def flush():
        if not batch:
            return
        r, m = p.check([z3.Or(*batch)], timeout_ms=300000, label=f"{name} batch")
        if r == "sat":
            for (key, terms), dis in zip(meta, batch):
                if symeval.model_bool(m, dis):
                    p.violation(f"db-entry:{name}:function", f"{name} entry {key} does not compute its key",
                                REPLAY_PRELUDE + "from checks import c17\n" + f"key={key!r}\nc=c17.get_db({name!r}).get_by_label(key)\n"
                                "tt=c.get_truth_table()\nlab='_'.join(''.join(str(int(b)) for b in row) for row in tt)\nprint(lab); sys.exit(1 if lab!=key else 0)\n")
                    break
        batch.clear()
        meta.clear()

    for key in sel:
        rows = key.split("_")
        n = int(math.log2(len(rows[0])))
        p.case((name, key), nontrivial=True, sample=f"{name} {key}" if len(p.samples) < 2 else None)
        bad = None
        try:
            c = decode_circuit(db._dict[key])
        except Exception as e:  # noqa: BLE001
            bad = f"does not decode: {type(e).__name__}: {e}"
            c = None
        if c is not None:
            types = {g.gate_type.name for g in c.gates.values()}
            if len(c.inputs) != n or len(c.outputs) != len(rows):
                bad = f"shape {len(c.inputs)}x{len(c.outputs)} does not match key"
            elif types - BASIS[name]:
                bad = f"gate types outside the {name} basis: {sorted(types - BASIS[name])}"
            else:
                wf = circ.wf_problems(c, check_topsort=False)
                if wf:
                    bad = f"not well formed: {wf[0]}"
            # keys are normalised: first entry 0, rows strictly increasing
            if not bad and (any(r[0] != "0" for r in rows) or any(a >= b for a, b in zip(rows, rows[1:]))):
                bad = "key is not a normalised table"
            if not bad and DB._truth_table_to_label([[ch == "1" for ch in r] for r in rows]) != key:
                bad = "key is not in the format look-ups construct"
        if bad:
            p.violation(f"db-entry:{name}:{bad.split(' ')[0]}", f"{name} entry {key}: {bad}",
                        REPLAY_PRELUDE + "from checks import c17\n" + f"key={key!r}\ntry:\n    c=c17.get_db({name!r}).get_by_label(key)\n"
                        f"    bad = bool({{g.gate_type.name for g in c.gates.values()}} - c17.BASIS[{name!r}]) or bool(circ.wf_problems(c))\n"
                        "except Exception as e:\n    print(e); bad=True\nsys.exit(1 if bad else 0)\n")
            continue
        xs = xs_cache[n]
        ev = c.evaluate([symeval.SymState(x, False) for x in xs])
        dis = []
        for row, v in zip(rows, ev):
            s = symeval.lift(v)
            dis.append(z3.Or(symeval.zb(s.u), symeval.zb(s.t) != key_func(row, xs)))
        batch.append(z3.Or(*dis))
        meta.append((key, None))
        if len(batch) >= 400:
            flush()
    flush()
    if two_input_only and sel:
        # canary (vacuity guard): the same query with one key bit flipped must be refuted
        key = sel[-1]
        rows = key.split("_")
        n = int(math.log2(len(rows[0])))
        c = decode_circuit(db._dict[key])
        xs = xs_cache[n]
        ev = c.evaluate([symeval.SymState(x, False) for x in xs])
        flipped = ("1" if rows[0][1] == "0" else "0")
        wrong = rows[0][:1] + flipped + rows[0][2:]
        s0 = symeval.lift(ev[0])
        r, _ = p.check([symeval.zb(s0.t) != key_func(wrong, xs)], label="canary")
        p.canary(r == "sat")


# ------------------------------------------------------------------ 2
class SB:
    """Symbolic truth-table entry; any branch on it forks through forkexec."""

    def __init__(self, term):
        self.term = term

    @staticmethod
    def of(x):
        return x.term if isinstance(x, SB) else z3.BoolVal(bool(x))

    def __bool__(self):
        return forkexec.decide(self.term)

    def __eq__(self, o):
        return SB(self.term == SB.of(o))

    def __ne__(self, o):
        return SB(self.term != SB.of(o))

    def __lt__(self, o):
        return SB(z3.And(z3.Not(self.term), SB.of(o)))

    def __gt__(self, o):
        return SB(z3.And(self.term, z3.Not(SB.of(o))))

    def __le__(self, o):
        return SB(z3.Or(z3.Not(self.term), SB.of(o)))

    def __ge__(self, o):
        return SB(z3.Or(self.term, z3.Not(SB.of(o))))

    def __hash__(self):
        return hash(bool(self))

    def __int__(self):
        return int(bool(self))

    __index__ = __int__


def normalization_unit(p, item, tier, seed):
    m, cols, fixed = item  # outputs, columns, optional fixed first-column pattern to split work
    T = [[z3.Bool(f"t_{i}_{j}") for j in range(cols)] for i in range(m)]
    base = [T[i][0] == bool(b) for i, b in enumerate(fixed)] if fixed is not None else []

    def body():
        table = [[SB(T[i][j]) for j in range(cols)] for i in range(m)]
        info = NormalizationInfo(table)
        norm = info.truth_table
        k = len(norm)
        c = Circuit()
        labs = [f"o{i}" for i in range(k)]
        c.add_inputs(labs)
        c.set_outputs(labs)
        info.denormalize(c)
        return info, norm, c

    paths, stats = forkexec.explore(body, base=base, max_paths=300000, catch=(Exception,))
    p.case(("norm", m, cols, fixed), sample=f"NormalizationInfo over a symbolic {m}x{cols} table{' first column ' + str(fixed) if fixed else ''}: {stats['paths']} paths, coverage proven={stats['covered']}")
    p.count("normalization_paths", stats["paths"])
    if stats["covered"]:
        p.queries["unsat"] += 1
    else:
        p.error(f"path coverage not proven for normalisation shape {item}")
    s = z3.Solver()
    for path in paths:
        pc = z3.And(*base, path.cond())
        bad = None
        if path.exc is not None:
            bad = f"raised {type(path.exc).__name__}: {path.exc}"
            viol = [pc]
        else:
            info, norm, c = path.result
            k = len(norm)
            viol = []
            if len(c.outputs) != m:
                bad = f"{len(c.outputs)} outputs after denormalisation, expected {m}"
                viol = [pc]
            else:
                # normal form: every row starts with 0, rows strictly increasing
                nf = []
                for r in norm:
                    nf.append(z3.Not(SB.of(r[0])))
                dis = []
                for col in range(cols):
                    assign = {f"o{i}": symeval.SymState(SB.of(norm[i][col]), False) for i in range(k)}
                    res = c.evaluate_circuit(dict(assign))
                    for j in range(m):
                        sres = symeval.lift(res[c.outputs[j]])
                        dis.append(z3.Or(symeval.zb(sres.u), symeval.zb(sres.t) != T[j][col]))
                viol = [pc, z3.Or(z3.Not(z3.And(*nf)), *dis)]
                bad_msg = "denormalised circuit does not give back the table (or the normal form is violated)"
        if path is paths[0] and path.exc is None and p.canaries_run < 1:
            # canary (vacuity guard): against a table with one entry negated the same query must be sat
            s.push()
            s.add(pc)
            wrong = [d for d in dis]
            s.add(z3.Or(*[z3.Not(d) for d in wrong[:1]]))
            p.canary(str(s.check()) == "sat")
            s.pop()
        s.push()
        for v in viol:
            s.add(v)
        r = str(s.check())
        p.queries["unsat" if r == "unsat" else "sat" if r == "sat" else "unknown"] += 1
        if r == "sat":
            mod = s.model()
            table = [[symeval.model_bool(mod, T[i][j]) for j in range(cols)] for i in range(m)]
            p.violation(f"normalization:{m}x{cols}", f"table {table}: {bad or bad_msg}",
                        REPLAY_PRELUDE + "from cirbo.circuits_db.normalization import NormalizationInfo\nfrom cirbo.core.circuit import Circuit\n"
                        f"T={table!r}\ninfo=NormalizationInfo([list(r) for r in T]); norm=info.truth_table\n"
                        "c=Circuit(); labs=[f'o{i}' for i in range(len(norm))]; c.add_inputs(labs); c.set_outputs(labs)\n"
                        "bad=[]\ntry:\n    info.denormalize(c)\n    for col in range(len(T[0])):\n"
                        "        res=c.evaluate_circuit({f'o{i}': bool(norm[i][col]) for i in range(len(norm))})\n"
                        "        got=[res[o] for o in c.outputs]\n        if got!=[T[j][col] for j in range(len(T))]: bad.append((col,got))\n"
                        "    if any(r[0] for r in norm) or any(list(a)>=list(b) for a,b in zip(norm,norm[1:])): bad.append('normal form')\n"
                        "except Exception as e:\n    bad.append(repr(e))\nprint(bad); sys.exit(1 if bad else 0)\n")
            s.pop()
            return
        s.pop()


# ------------------------------------------------------------------ 4
LOOKUP_LOG = []  # every look-up this process made so far, in order (a later answer may depend on earlier ones)


def history_src():
    """Replay prefix: the look-ups made before, in the same order (results ignored)."""
    if not LOOKUP_LOG:
        return ""
    return ("from checks import c17 as _c17\n_HISTORY=" + repr(LOOKUP_LOG[-4000:]) + "\n"
            "for _nm, _T in _HISTORY:\n    try:\n        _c17.get_db(_nm).get_by_raw_truth_table(_T)\n    except Exception:\n        pass\n")


def lookup_check(p, name, table, expect_found=None, as_tuples=False):
    """get_by_raw_truth_table on a fully defined table (rows given as lists, or as tuples:
    RawTruthTable is any Sequence[Sequence[bool]])."""
    db = get_db(name)
    if as_tuples:
        return _lookup_tuples(p, name, table)
    p.case(("lookup", name, repr(table)), sample=f"{name} look-up {table}" if len(p.samples) < 5 else None)
    src = (REPLAY_PRELUDE + history_src() + "from checks import c17\n" + f"T={table!r}\nc=c17.get_db({name!r}).get_by_raw_truth_table([list(r) for r in T])\n")
    LOOKUP_LOG.append((name, [list(r) for r in table]))
    try:
        c = db.get_by_raw_truth_table([list(r) for r in table])
    except Exception as e:  # noqa: BLE001
        p.violation(f"lookup:{name}:raises:{type(e).__name__}", f"look-up of {table} raised {type(e).__name__}: {e}", src + "sys.exit(0)\n")
        return None
    distinct = {tuple(r) if not r[0] else tuple(not v for v in r) for r in table}
    should = len(distinct) <= 3 if expect_found is None else expect_found
    if c is None:
        if should:
            p.violation(f"lookup:{name}:missing", f"look-up of {table} returned nothing although its normal form has {len(distinct)} rows",
                        src + "print(c); sys.exit(1 if c is None else 0)\n")
        return None
    n = int(math.log2(len(table[0])))
    bad = None
    if len(c.inputs) != n or len(c.outputs) != len(table):
        bad = "shape"
    else:
        try:
            tt = c.get_truth_table()
        except Exception as e:  # noqa: BLE001
            tt, bad = None, f"unevaluable:{type(e).__name__}"
        if bad:
            pass
        elif [list(r) for r in tt] != [list(r) for r in table]:
            bad = "function"
        elif {g.gate_type.name for g in c.gates.values()} - BASIS[name]:
            bad = "basis"
        elif circ.wf_problems(c):
            bad = "well-formedness"
    if bad:
        p.violation(f"lookup:{name}:{bad}", f"look-up of {table} returned {circ.describe(c)} ({bad})",
                    src + "try:\n    bad = c is None or [list(r) for r in c.get_truth_table()]!=[list(r) for r in T] or bool(circ.wf_problems(c))\n"
                    "except Exception as e:\n    print(type(e).__name__, e); bad=True\nsys.exit(1 if bad else 0)\n")
        return None
    return c


def _lookup_tuples(p, name, table):
    db = get_db(name)
    tt = tuple(tuple(r) for r in table)
    p.case(("lookup-tuples", name, repr(tt)), sample=f"{name} look-up with tuple rows {tt}" if len(p.samples) < 7 else None)
    distinct = {tuple(r) if not r[0] else tuple(not v for v in r) for r in tt}
    src = (REPLAY_PRELUDE + history_src() + "from checks import c17\n" + f"T={tt!r}\ntry:\n    c=c17.get_db({name!r}).get_by_raw_truth_table(T)\n"
           "    bad = c is None or [tuple(r) for r in c.get_truth_table()]!=[tuple(r) for r in T]\nexcept Exception as e:\n    print(type(e).__name__, e); bad=True\n"
           "print(bad); sys.exit(1 if bad else 0)\n")
    if len(distinct) > 3:
        return
    LOOKUP_LOG.append((name, tt))
    try:
        c = db.get_by_raw_truth_table(tt)
        bad = None if (c is not None and [tuple(r) for r in c.get_truth_table()] == [tuple(r) for r in tt]) else ("nothing returned" if c is None else "wrong function")
    except Exception as e:  # noqa: BLE001
        bad = f"{type(e).__name__}: {e}"
    if bad:
        p.violation(f"lookup:{name}:tuple-rows:{bad.split(' ')[0].split(':')[0]}", f"look-up of {tt} (tuple rows): {bad}", src)


def lookup_unit(p, item, tier, seed):
    kind, name, arg = item
    rnd = random.Random(hash((kind, name, repr(arg))) & 0xFFFFFF)
    B = (False, True)
    if kind == "single":
        for n in (2, 3):
            for row in itertools.product(B, repeat=1 << n):
                lookup_check(p, name, [list(row)])
    elif kind == "two-input-multi":
        rows = list(itertools.product(B, repeat=4))
        chunk = arg
        for i, combo in enumerate(itertools.product(rows, repeat=3)):
            if i % 16 == chunk:
                lookup_check(p, name, [list(r) for r in combo])
        for combo in itertools.product(rows, repeat=2):
            if hash(combo) % 16 == chunk:
                lookup_check(p, name, [list(r) for r in combo])
    elif kind == "three-input-multi":
        for _ in range(arg):
            m = rnd.choice([2, 3, 3, 4, 5])
            table = [[rnd.random() < 0.5 for _ in range(8)] for _ in range(m)]
            if rnd.random() < 0.3:
                table[-1] = list(table[0])
            if rnd.random() < 0.3:
                table[-1] = [not v for v in table[0]]
            lookup_check(p, name, table)
            lookup_check(p, name, table, as_tuples=True)
    elif kind == "dont-care":
        db = get_db(name)
        # () is a legal measure too: nothing excluded, every gate counts (an *empty* list is not "no list given")
        EXCL = [None, (), (), ("INPUT",), ("INPUT", "NOT"), ("INPUT", "NOT", "XOR", "NXOR"), ("INPUT", "NOT", "AND", "OR", "NAND", "NOR"), ("INPUT", "NOT", "IFF", "XOR", "NXOR", "AND")]
        def dc_one(n, m, table, model, dcs, excl_names, excl):
            for i, j in dcs:
                model[i][j] = DontCare
            p.case(("dc", name, repr(table), repr(dcs), excl_names), sample=f"{name} don't-care look-up {m}x{1 << n} with {len(dcs)} don't-cares" if len(p.samples) < 6 else None)
            msrc = "[" + ", ".join("[" + ", ".join("DontCare" if v is DontCare else repr(v) for v in r) + "]" for r in model) + "]"
            src = (REPLAY_PRELUDE + "import itertools\nfrom checks import c17\nfrom cirbo.core.logic import DontCare\n" + f"M={msrc}\ndcs={dcs!r}\ndb=c17.get_db({name!r})\n"
                   f"from cirbo.core.circuit import gate as G\nexcl={'None' if excl_names is None else '()' if not excl_names else '(' + ', '.join('G.' + t for t in excl_names) + ',)'}\n"
                   "c=db.get_by_raw_truth_table_model([list(r) for r in M], exclusion_list=excl)\nbad=[]\n"
                   "best=None\n"
                   "for sub in itertools.product((False,True), repeat=len(dcs)):\n"
                   "    T=[[False if v is DontCare else v for v in r] for r in M]\n"
                   "    for (i,j),v in zip(dcs,sub): T[i][j]=v\n"
                   "    k=db.get_by_raw_truth_table(T)\n"
                   "    if k is not None: best=k.gates_number(excl) if best is None else min(best,k.gates_number(excl))\n"
                   "if c is None:\n    if best is not None: bad.append('nothing returned although a completion is stored')\n"
                   "else:\n    tt=c.get_truth_table()\n"
                   "    if any(M[i][j] is not DontCare and tt[i][j]!=M[i][j] for i in range(len(M)) for j in range(len(M[0]))): bad.append('disagrees with a defined entry')\n"
                   "    if best is not None and c.gates_number(excl)>best: bad.append(('larger than a completion', c.gates_number(excl), best))\n"
                   "print(bad); sys.exit(1 if bad else 0)\n")
            try:
                c = db.get_by_raw_truth_table_model([list(r) for r in model], exclusion_list=excl)
            except Exception as e:  # noqa: BLE001
                p.violation(f"lookup-dc:{name}:raises:{type(e).__name__}", f"don't-care look-up raised {type(e).__name__}: {e}", src)
                return
            best = None
            for sub in itertools.product(B, repeat=len(dcs)):
                T = [[False if v is DontCare else v for v in r] for r in model]
                for (i, j), v in zip(dcs, sub):
                    T[i][j] = v
                k = db.get_by_raw_truth_table(T)
                if k is not None:
                    best = k.gates_number(excl) if best is None else min(best, k.gates_number(excl))
            bad = None
            if c is None:
                if best is not None:
                    bad = "nothing returned although a completion is stored"
            else:
                tt = c.get_truth_table()
                if len(tt) != m or any(model[i][j] is not DontCare and tt[i][j] != model[i][j] for i in range(m) for j in range(1 << n)):
                    bad = "result disagrees with a defined entry"
                elif best is not None and c.gates_number(excl) > best:
                    bad = f"result has {c.gates_number(excl)} gates (not counting {excl_names}), a completion is stored with {best}"
            if bad:
                p.violation(f"lookup-dc:{name}:{bad.split(' ')[0]}", f"model {model}: {bad}", src)

        # systematic part: every one-output model over two inputs (3^4 tables: each entry False / True / don't-care),
        # under "no list given", the empty list (count everything) and two lists that count the NOT gates
        for cells in itertools.product((False, True, None), repeat=4):
            dcs_ = [(0, j) for j, v in enumerate(cells) if v is None]
            if not dcs_ or (arg < 60 and (sum(3 ** k_ * (0 if v is False else 1 if v else 2) for k_, v in enumerate(cells)) + len(name)) % 2):
                continue
            for excl_names_ in (None, (), ("INPUT",), ("INPUT", "IFF")):
                table_ = [[bool(v) for v in cells]]
                dc_one(2, 1, table_, [list(r) for r in table_], dcs_, excl_names_, None if excl_names_ is None else tuple(getattr(G, t_) for t_ in excl_names_))
        for it_ in range(arg):
            n = rnd.choice([2, 3])
            m = rnd.choice([1, 2, 3])
            table = [[rnd.random() < 0.5 for _ in range(1 << n)] for _ in range(m)]
            if it_ % 3 == 0:
                # rows that have a completion costing nothing under a measure that ignores linear gates
                for r_ in range(m):
                    mask = rnd.randrange(1, 1 << n)
                    neg = rnd.random() < 0.5
                    table[r_] = [(bin(j & mask).count("1") % 2 == 1) != neg for j in range(1 << n)]
            if it_ % 3 == 1:
                # a function and its complement both fully defined, next to a row that can be completed to either
                m = 3
                table = [[rnd.random() < 0.5 for _ in range(1 << n)] for _ in range(m)]
                i1, i2, kind_ = rnd.randrange(n), rnd.randrange(n), rnd.choice(["and", "or", "xor", "gt", "random"])
                bit = lambda j, i: ((j >> (n - 1 - i)) & 1) == 1  # noqa: E731
                f = [{"and": bit(j, i1) and bit(j, i2), "or": bit(j, i1) or bit(j, i2), "xor": bit(j, i1) != bit(j, i2), "gt": bit(j, i1) and not bit(j, i2),
                      "random": rnd.random() < 0.5}[kind_] for j in range(1 << n)]
                table[0] = list(f)
                table[1] = [not v for v in f]
                if m >= 3:
                    table[2] = list(f) if rnd.random() < 0.5 else [not v for v in f]
            excl_names = rnd.choice(EXCL) if it_ % 3 != 1 else None
            excl = None if excl_names is None else tuple(getattr(G, t) for t in excl_names)
            model = [list(r) for r in table]
            pos = [(i, j) for i in range(m) for j in range(1 << n)]
            dcs = rnd.sample(pos, rnd.randint(1, 4))
            if it_ % 3 == 1 and m >= 3:
                dcs = [(2, j) for j in rnd.sample(range(1 << n), rnd.randint(1, min(4, 1 << n)))]
            if it_ % 4 == 3 and m >= 2:
                # the first entry decides whether an output is stored negated: leave it open in several outputs at once,
                # under a measure that counts the NOT gates a denormalisation adds
                dcs = [(i, 0) for i in range(m)] + ([(rnd.randrange(m), rnd.randrange(1, 1 << n))] if rnd.random() < 0.3 else [])
                excl_names = rnd.choice([("INPUT",), (), ("INPUT", "IFF")])
                excl = tuple(getattr(G, t) for t in excl_names)
            dc_one(n, m, table, model, dcs, excl_names, excl)


def run(rep, tier, seed, only=None):
    symeval.install()
    thorough = tier == "thorough"
    rep.functions = ["circuits_encoding.decode_circuit (every stored entry)", "normalization.NormalizationInfo._normalize_outputs/_sort_outputs/_delete_duplicate_outputs and denormalize (_undo_outputs_deletion/_unsort_outputs/_denormalize_outputs/_negate_gate)",
                     "db.CircuitsDatabase.open/get_by_label/get_by_raw_truth_table/get_by_raw_truth_table_model, db._truth_table_to_label", "Circuit.evaluate (E-S terms per entry)"]
    rep.bounds = {"entries": "thorough: all 2 x 349,724; quick: all 2-input entries + every 20th of the rest (offset rotates with VERIF_SEED)",
                  "normalisation shapes (outputs x columns)": "quick 1x4,2x4,3x4,1x8; thorough adds 2x8 (and 4x4)", "look-ups": "all 1-output tables n=2,3; all 2-input tables with 2 and 3 outputs; seeded 3-input tables with 2..5 outputs; seeded don't-care models <=4 don't-cares"}
    rep.outside = ["tables with more than 3 inputs (not stored)", "normalisation shape 3x8 and larger (path count)", "more than 4 don't-cares"]
    rep.bounds['systematic models'] = 'every one-output model over two inputs (3^4 tables; half of them in the quick tier) under no list, the empty list, (INPUT,) and (INPUT, IFF)'
    rep.bounds['measures / histories'] = "don't-care look-ups under 6 exclusion lists incl. ones that make linear completions free; replays carry the look-up history of the worker"
    rep.rule = "cases = stored entries (distinct by key), normalisation shapes, look-up tables"
    rep.explanation = ("every decoded entry's real-evaluator term is compared with its key by z3 (batched); NormalizationInfo is executed on a fully symbolic table, "
                       "all paths explored with z3-proven coverage and denormalisation checked per path; composition: correct entries + correct normalisation algebra + equal key construction => correct look-ups")
    sub = lambda n: only is None or only in n  # noqa: E731
    work = []
    if sub("entries"):
        items = []
        for name in ("AIG", "XAIG"):
            items.append((name, 0, 1, 0, True))
            if thorough:
                k = 64
                items += [(name, i, k, 10 ** 9, False) for i in range(k)]
            else:
                k = 20 * 16
                items += [(name, (seed * 7 + i * 20) % k, k, 10 ** 9, False) for i in range(16)]
        rep.pmap(entries_unit, items)
    if sub("norm"):
        shapes = [(1, 4), (2, 4), (3, 4), (1, 8)] + ([(2, 8), (4, 4)] if thorough else [])
        items = []
        for m, cols in shapes:
            if m * cols >= 12:
                items += [(m, cols, fx) for fx in itertools.product((0, 1), repeat=m)]
            else:
                items.append((m, cols, None))
        rep.pmap(normalization_unit, items)
    if sub("lookup"):
        items = []
        for name in ("AIG", "XAIG"):
            items.append(("single", name, None))
            items += [("two-input-multi", name, ch) for ch in (range(16) if thorough else [seed % 16, (seed + 5) % 16])]
            items += [("three-input-multi", name, 150 if thorough else 40) for _ in range(4 if thorough else 1)]
            items += [("dont-care", name, 60 if thorough else 15) for _ in range(4 if thorough else 1)]
        rep.pmap(lookup_unit, [(k, n, a if not isinstance(a, int) or k == "two-input-multi" else a) for k, n, a in items])
