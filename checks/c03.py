"""C03 — simplification passes preserve the function, the interface and their argument."""
import random

import z3

from vlib import circ, circgen, symeval
from vlib.symeval import zb
from checks import passes
from checks.common import REPLAY_PRELUDE

HASH_SEEDS = {"quick": (1,), "thorough": (1, 2, 3)}  # also run (quick size) under these PYTHONHASHSEEDs
LEVEL = "translation_validation"
TECHNIQUE = "translation validation: per (circuit, pass) z3 equivalence of real-evaluator terms before/after, plus interface/argument/size predicates"
USES_STUBS = True

from cirbo.core.circuit import gate as G  # noqa: E402


def reachable_from_outputs(c):
    seen, st = set(), list(c.outputs)
    while st:
        l = st.pop()
        if l in seen:
            continue
        seen.add(l)
        st.extend(c.gates[l].operands)
    return seen


def removes_inputs(spec):
    return "allow_inputs_removal=True" in spec


def replay_source(spec, c_src, prev):
    src = REPLAY_PRELUDE + passes.IMPORTS + passes.APPLY_SRC + EDIT_SRC + c_src + "\nimport itertools\n" + f"spec={spec!r}\nbefore=circ.snapshot(c)\nbad=[]\n"
    if prev is not None:
        src += (circ.circ_src(prev, "prev") + "\nobj=eval(spec)\n"
                "run=lambda x: Transformer.apply_transformers(x, obj) if (isinstance(obj, list) or hasattr(obj, '__next__')) else obj.transform(x)\n"
                "try:\n    run(prev)\n    r=run(c)\nexcept Exception as e:\n    print(type(e).__name__, e); sys.exit(1)\n")
    else:
        src += "try:\n    r=apply_spec(spec, c)\nexcept Exception as e:\n    print(type(e).__name__, e); sys.exit(1)\n"
    src += ("if r is c: bad.append('result is the argument object')\n"
            "if circ.snapshot(c)!=before: bad.append('argument modified')\n"
            "if len(r.outputs)!=len(c.outputs): bad.append('output count')\n"
            "if r.size>c.size: bad.append('size grew')\n"
            "if 'allow_inputs_removal=True' not in spec and list(r.inputs)!=list(c.inputs): bad.append('inputs')\n"
            "if [i for i in c.inputs if i in r.inputs]!=list(r.inputs): bad.append('input order')\n"
            "bad+=circ.wf_problems(r)\n"
            "if not bad:\n"
            "    for x in itertools.product((False,True), repeat=len(c.inputs)):\n"
            "        a=dict(zip(c.inputs,x))\n"
            "        ea=ref_concrete(circ.netlist_of(c), a); eb=ref_concrete(circ.netlist_of(r), {k:v for k,v in a.items() if k in r.inputs})\n"
            "        if [ea[o] for o in c.outputs]!=[eb[o] for o in r.outputs]: bad.append(('differs', a)); break\n"
            "if not bad:\n"
            "    try:\n        edit_result(r)\n    except Exception as e:\n        bad.append(('editing the result raised', type(e).__name__, str(e)))\n"
            "    if circ.snapshot(c)!=before: bad.append('argument follows later edits of the result')\n"
            "print(bad)\nsys.exit(1 if bad else 0)\n")
    return src


EDIT_SRC = """
def edit_result(r):
    labs = list(r.gates)
    if not labs:
        return
    r.mark_as_output(labs[0])
    if r.outputs:
        r.rename_gate(r.outputs[0], 'renamed_by_the_caller_of_the_pass')
    if r.inputs:
        r.rename_gate(r.inputs[-1], 'input_renamed_by_the_caller_of_the_pass')
"""
exec(EDIT_SRC)  # noqa: S102


def check_pass(p, name, c, spec, prev=None):
    """prev: a circuit the *same* (kept) pass object was applied to just before (reuse of pass objects)."""
    from checks.mutators import rebuild

    c = rebuild(c)  # a fresh copy per pass: a pass that corrupts its argument must not poison the next case
    before = circ.snapshot(c)
    c_src, c_desc = circ.circ_src(c), circ.describe(c)  # taken *before* the pass runs: the pass may corrupt its argument
    try:
        if prev is not None:
            # one fresh pass object, applied to `prev` and then to `c` (exactly what the replay does)
            obj = eval(spec, dict(passes.NS))  # noqa: S307
            run_obj = (lambda x: passes.Transformer.apply_transformers(x, obj)) if passes.is_pipeline_object(obj) else obj.transform
            run_obj(rebuild(prev))
            r = run_obj(c)
        else:
            r = passes.apply_spec(spec, c)
    except Exception as e:  # noqa: BLE001
        p.violation(f"pass-raises:{spec}:{type(e).__name__}", f"{spec} raised {type(e).__name__}: {e} on {c_desc}" + (" (pass object reused after " + circ.describe(prev) + ")" if prev is not None else ""),
                    replay_source(spec, c_src, prev))
        return
    p.case(("c03", before[:3], spec), sample=f"{spec} on {name}: {circ.describe(c)} -> {circ.describe(r)}")
    problems = []
    if circ.snapshot(c) != before:
        problems.append("argument circuit was modified")
    if r is c:
        problems.append("result is the argument object")
    reach = reachable_from_outputs(c)
    if removes_inputs(spec):
        # inputs may only disappear when unreachable; order preserved
        if [i for i in c.inputs if i in r.inputs] != list(r.inputs):
            problems.append(f"input order changed: {c.inputs} -> {r.inputs}")
        lost = [i for i in c.inputs if i not in r.inputs]
        # a single RRG(True): only structurally unreachable inputs may go.  In a pipeline an earlier
        # pass may legitimately disconnect an input first; there the z3 equivalence query below (which
        # quantifies over the removed inputs too) is what guards the function.
        if spec == "RRG(allow_inputs_removal=True)" and any(i in reach for i in lost):
            problems.append(f"reachable input removed: {lost}")
    elif list(r.inputs) != list(c.inputs):
        problems.append(f"inputs changed: {c.inputs} -> {r.inputs}")
    if len(r.outputs) != len(c.outputs):
        problems.append(f"number of outputs changed {len(c.outputs)} -> {len(r.outputs)}")
    if r.size > c.size:
        problems.append(f"result has more gates ({r.size}) than the argument ({c.size})")
    problems += circ.wf_problems(r)
    if not problems and c.outputs:
        zs = {lab: z3.Bool(f"x{i}") for i, lab in enumerate(c.inputs)}
        sym = {lab: symeval.SymState(v, False) for lab, v in zs.items()}
        oa = c.evaluate_circuit(dict(sym))
        ob = r.evaluate_circuit({k: v for k, v in sym.items() if k in r.inputs})
        dis = [symeval.states_differ(oa[x], ob[y]) for x, y in zip(c.outputs, r.outputs)]
        res, m = p.check([z3.Or(*dis)], label=f"equiv {spec} {name}")
        if res == "sat":
            assign = {lab: symeval.model_bool(m, v) for lab, v in zs.items()}
            problems.append(f"truth table differs on {assign}")
    if not problems:
        # "a new circuit": what the caller does to the result afterwards (in-place edits through public calls)
        # must not reach the argument
        try:
            edit_result(r)
        except Exception as e:  # noqa: BLE001
            problems.append(f"editing the result raised {type(e).__name__}: {e}")
        if circ.snapshot(c) != before:
            problems.append("argument circuit follows later edits of the result (shared state)")
    if problems:
        p.violation(
            f"pass:{spec}:{problems[0].split(':')[0][:40]}",
            f"{spec} on {c_desc} -> {circ.describe(r)}: {problems[:3]}" + (" (pass object reused after " + circ.describe(prev) + ")" if prev is not None else ""),
            replay_source(spec, c_src, prev),
        )


def canary(p):
    """Vacuity guard: a deliberately wrong 'pass' (one gate retyped) must be refuted by the same query."""
    for name, c in circgen.feature_circuits():
        if name != "shared_fanout":
            continue
        gates = [(l, g.gate_type, g.operands) for l, g in c.gates.items() if g.gate_type != G.INPUT]
        gates[0] = (gates[0][0], G.NXOR, gates[0][2])
        r = circgen.build(list(c.inputs), gates, list(c.outputs))
        zs = {lab: z3.Bool(f"x{i}") for i, lab in enumerate(c.inputs)}
        sym = {lab: symeval.SymState(v, False) for lab, v in zs.items()}
        oa, ob = c.evaluate_circuit(dict(sym)), r.evaluate_circuit(dict(sym))
        res, _ = p.check([z3.Or(*[symeval.states_differ(oa[x], ob[y]) for x, y in zip(c.outputs, r.outputs)])], label="canary")
        p.canary(res == "sat")


def unit(p, item, tier, seed):
    s, count = item
    rnd = random.Random(s)
    specs = passes.pass_specs(tier == "thorough", rnd)
    fam = passes.pass_circuits(s, count, max_inputs=5 if tier == "quick" else 6, max_gates=10 if tier == "quick" else 14)
    if s % 16 != 0:
        fam = [x for x in fam if x[0].startswith("seeded")]
    if s % 16 == 0:
        canary(p)
    prev_c = None
    for name, c in fam:
        chosen = specs if (tier == "thorough" and name.startswith("seeded") is False) else (passes.BASIC + ["cleanup(False)", "cleanup(True)"] + passes.ONE_SHOT[:2] + rnd.sample(specs, min(6, len(specs))))
        for spec in chosen:
            if "ME()" in spec or spec == "cleanup(True)":
                if len(c.inputs) > 6:
                    continue
            check_pass(p, name, c, spec)
        # the same kept pass objects applied to this circuit right after the previous one
        if prev_c is not None:
            for spec in passes.BASIC + ["(RRG() | MD())", "(MU() | MD() | ME())"]:
                if "ME()" in spec and (len(c.inputs) > 6 or len(prev_c.inputs) > 6):
                    continue
                check_pass(p, name + "/after-previous", c, spec, prev=prev_c)
        prev_c = c


def run(rep, tier, seed, only=None):
    symeval.install()
    thorough = tier == "thorough"
    rep.functions = ["RemoveRedundantGates._transform", "MergeUnaryOperators._transform", "MergeDuplicateGates._transform",
                     "MergeEquivalentGates._transform (+_find_equivalent_gates_groups, _replace_equivalent_gates)",
                     "Transformer.apply_transformers / __or__ / linearize_*", "cleanup", "Circuit.dfs, evaluate_circuit"]
    rep.bounds = {"circuits": "feature family + seeded DAGs <=5 inputs/<=10 gates (quick), <=6/<=14 (thorough), all gate types, arity<=4",
                  "passes": "5 basic passes, cleanup light/heavy, nested/2-/3-compositions by | and by list"}
    rep.bounds['result edited afterwards'] = 'after every (circuit, pipeline) case the result is edited through public calls (mark_as_output, rename of an output and of an input) and the argument is compared with its snapshot again'
    rep.outside = ["circuits with more than 6 inputs for MergeEquivalentGates", "arity > 4"]
    rep.rule = "program = (circuit, pass pipeline); equivalence of every output decided by z3 over all inputs; interface/argument/size predicates concrete"
    rep.explanation = "translation validation of each pass application"
    n = 192 if thorough else 64
    rep.pmap(unit, [(seed * 101 + s, 30 if thorough else 12) for s in range(n)])
