"""C10 — circuit composition computes the documented functional composition.

Reference: a 40-line composition of *plain netlists* (no cirbo code) + E-R
denotation; real result evaluated through the real evaluator on z3 terms; per
kept output equivalence is decided by z3 over all inputs.
"""
import copy
import random

import z3

from vlib import circ, circgen, refsem, symeval
from checks.common import REPLAY_PRELUDE

HASH_SEEDS = {"quick": (1,), "thorough": (1, 2, 3)}  # also run (quick size) under these PYTHONHASHSEEDs
LEVEL = "translation_validation"
TECHNIQUE = "translation validation: z3 equivalence of the real composed circuit (real evaluator terms) with a reference netlist composition, per kept output"
USES_STUBS = True

from cirbo.core.circuit import Circuit, gate as G  # noqa: E402
from cirbo.core.circuit.exceptions import CircuitValidationError, CreateBlockError  # noqa: E402


def rebuild(c):
    r = Circuit()
    for lab, g in c._gates.items():
        r._emplace_gate(lab, g.gate_type, tuple(g.operands))
    r.set_inputs(list(c._inputs))
    r.set_outputs(list(c._outputs))
    for name, b in c._blocks.items():
        r.make_block(name, list(b.gates), list(b.outputs), list(b.inputs))
    return r


def reference_compose(base, other, this_conn, other_conn, right, name, add_prefix):
    """Documented composition on plain data.  Returns (netlist, inputs, outputs, mapping)."""
    nb, no = circ.netlist_of(base), circ.netlist_of(other)
    prefix = name + "@" if (name != "" and add_prefix) else ""
    mapping = dict(zip(other_conn, this_conn))
    for lab in no:
        if lab not in mapping:
            mapping[lab] = prefix + lab
    net = dict(nb)
    for lab, (t, ops) in no.items():
        new = (t, tuple(mapping[o] for o in ops))
        if lab in other_conn:
            if right:
                net[mapping[lab]] = new  # base input replaced by the attached gate
        else:
            net[mapping[lab]] = new
    outputs = [o for o in base.outputs if o not in this_conn] + [mapping[o] for o in other.outputs if o not in other_conn]
    inputs = [i for i in base.inputs if net[i][0] == "INPUT"] + [mapping[i] for i in other.inputs if i not in other_conn]
    return net, inputs, outputs, mapping


CALL_SRC = """
def do_call(base, other, call):
    kind = call['kind']
    kw = dict(name=call['name'], add_prefix=call['add_prefix'])
    if kind == 'connect_circuit':
        return base.connect_circuit(other, call['this'], call['other'], right_connect=call['right'], **kw)
    if kind == 'connect_left':
        return base.connect_left(other, call['this'], **kw)
    if kind == 'connect_right':
        return base.connect_right(other, call['other'], **kw)
    if kind == 'connect_inputs':
        return base.connect_inputs(other, **kw)
    if kind == 'extend_circuit':
        if call.get('explicit'):
            return base.extend_circuit(other, this_connectors=call['this'], other_connectors=call['other'], right_connect=call['right'], **kw)
        return base.extend_circuit(other, right_connect=call['right'], **kw)
    if kind == 'add_circuit':
        return base.add_circuit(other, **kw)
    raise ValueError(kind)
"""
exec(CALL_SRC)  # defines do_call  # noqa: S102


def effective_connectors(base, other, call):
    k = call["kind"]
    if k == "connect_circuit":
        return list(call["this"]), list(call["other"]), call["right"]
    if k == "connect_left":
        return list(call["this"]), list(other.inputs), False
    if k == "connect_right":
        return list(base.inputs), list(call["other"]), True
    if k == "connect_inputs":
        return list(base.inputs), list(other.inputs), True
    if k == "extend_circuit":
        if call.get("explicit"):
            return list(call["this"]), list(call["other"]), call["right"]
        if call["right"]:
            return list(base.inputs), list(other.outputs), True
        return list(base.outputs), list(other.inputs), False
    return [], [], False


def in_documented_domain(base, other, this_c, other_c, right):
    if len(this_c) != len(other_c):
        return False
    if right:
        return (len(set(this_c)) == len(this_c) and len(set(other_c)) == len(other_c)  # repeated other connectors: outside claim
                and all(t in base.gates and base.gates[t].gate_type == G.INPUT for t in this_c)
                and all(o in other.gates for o in other_c))
    return (len(set(other_c)) == len(other_c) and all(o in other.gates and other.gates[o].gate_type == G.INPUT for o in other_c)
            and all(t in base.gates for t in this_c))


def check_call(p, name, base0, other, call, depth_tag=""):
    """Apply one composition call to a fresh copy of base0; return the result (or None)."""
    base = rebuild(base0)
    so = circ.snapshot(other)
    this_c, other_c, right = effective_connectors(base, other, call)
    domain = in_documented_domain(base, other, this_c, other_c, right)
    src = (REPLAY_PRELUDE + circ.circ_src(base0, "base") + "\n" + circ.circ_src(other, "other") + "\n" + CALL_SRC +
           f"\ncall={call!r}\nimport itertools, copy\n")
    try:
        ref = reference_compose(base, other, this_c, other_c, right, call["name"], call["add_prefix"]) if domain else None
    except KeyError:
        ref = None
    try:
        ret = do_call(base, other, call)
    except (CircuitValidationError, CreateBlockError):
        p.count("rejected_calls")
        return None
    except Exception as e:  # noqa: BLE001
        if domain:
            p.violation(f"compose:{call['kind']}:raises:{type(e).__name__}",
                        f"{call} raised {type(e).__name__}: {e} on base {circ.describe(base0)} other {circ.describe(other)}",
                        src + "try:\n    do_call(base, other, call)\nexcept Exception as e:\n    print(type(e).__name__, e); sys.exit(1)\nsys.exit(0)\n")
        return None
    if not domain or ref is None:
        p.count("outside_documented_domain")
        return None
    p.case(("compose", circ.snapshot(base0)[:3], so[:3], repr(sorted(call.items()))),
           sample=f"{name}{depth_tag}: {call} base {circ.describe(base0)} other {circ.describe(other)}")
    net, exp_inputs, exp_outputs, mapping = ref
    problems = []
    if ret is not base:
        problems.append("call did not return the base circuit")
    if circ.snapshot(other) != so:
        problems.append("attached circuit was modified")
    if list(base.inputs) != exp_inputs:
        problems.append(f"inputs {list(base.inputs)} != documented {exp_inputs}")
    if list(base.outputs) != exp_outputs:
        problems.append(f"outputs {list(base.outputs)} != documented {exp_outputs}")
    wf = circ.wf_problems(base)
    if wf:
        problems.append("result not well formed: " + "; ".join(wf[:2]))
    else:
        try:
            cp = copy.copy(base)
            if not (cp == base):
                problems.append("copy of the result differs from it")
        except Exception as e:  # noqa: BLE001
            problems.append(f"copy of the result raised {type(e).__name__}")
    if not problems:
        zs = {lab: z3.Bool(f"x{i}") for i, lab in enumerate(exp_inputs)}
        try:
            ER = refsem.denote(net, zs)
        except ValueError:
            # the documented composition of this call is not a circuit (it closes a loop): the call had to be rejected
            problems.append("the call returned normally although the documented composition is cyclic")
            ER = None
    if not problems:
        sym = {lab: symeval.SymState(v, False) for lab, v in zs.items()}
        lazy = base.evaluate_circuit(dict(sym))
        full = base.evaluate_full_circuit(dict(sym))
        dis = []
        for o in exp_outputs:
            for nm, res in (("evaluate_circuit", lazy), ("evaluate_full_circuit", full)):
                if o not in res:
                    dis.append((nm, o, z3.BoolVal(True)))
                else:
                    s = symeval.lift(res[o])
                    dis.append((nm, o, z3.Or(symeval.zb(s.u), symeval.zb(s.t) != ER[o])))
        # every gate of the result is one of the documented gates, computing the documented function
        for lab in base.gates:
            if lab not in ER:
                dis.append(("extra-gate", lab, z3.BoolVal(True)))
            elif lab in full:
                s = symeval.lift(full[lab])
                dis.append(("gate", lab, z3.Or(symeval.zb(s.u), symeval.zb(s.t) != ER[lab])))
        r, m = p.check([z3.Or(*[d[2] for d in dis])] if dis else [z3.BoolVal(False)], label=f"compose {name}")
        if r == "sat":
            assign = {lab: symeval.model_bool(m, v) for lab, v in zs.items()}
            bad = [(d[0], d[1]) for d in dis if symeval.model_bool(m, d[2])]
            problems.append(f"{bad[:2]} differ from the documented composition on {assign}")
        elif p.canaries_run < 2 and exp_outputs:
            o = exp_outputs[-1]
            s = symeval.lift(lazy[o])
            r2, _ = p.check([symeval.zb(s.t) != z3.Not(ER[o])], label="canary")
            p.canary(r2 == "sat")
    # block extraction gives back the attached circuit's function
    if not problems and call["name"] != "":
        try:
            blk = base.get_block(call["name"])
            sub = blk.into_circuit()
            if len(sub.outputs) != len(other.outputs):
                problems.append("extracted block has a different number of outputs")
            elif len(set(mapping[oi] for oi in other.inputs)) == len(other.inputs) and (len(set(sub.inputs)) != len(sub.inputs) or circ.wf_problems(sub)):
                # (connectors that identify two inputs of the attached circuit with one base gate are left out: the
                # block then lists that gate twice by construction)
                problems.append(f"extracted block is not a well-formed circuit: inputs {list(sub.inputs)} {circ.wf_problems(sub)[:2]}")
            else:
                ozs = {lab: z3.Bool(f"o{i}") for i, lab in enumerate(other.inputs)}
                osym = {lab: symeval.SymState(v, False) for lab, v in ozs.items()}
                oth = other.evaluate_circuit(dict(osym))
                # inputs of the extracted circuit correspond to other's inputs by mapped label
                bsym = {}
                ok = True
                for oi in other.inputs:
                    ml = mapping[oi]
                    if ml in bsym:  # two inputs of `other` identified with the same base gate: cannot be separated
                        ok = False
                    bsym[ml] = osym[oi]
                if ok and list(sub.inputs) != [mapping[oi] for oi in other.inputs]:
                    # a function is positional: the extracted circuit lists its inputs in the attached circuit's order
                    problems.append(f"block {call['name']!r}.into_circuit() lists its inputs as {list(sub.inputs)}, the attached circuit's inputs in their order are {[mapping[oi] for oi in other.inputs]}")
                elif ok and all(k in sub.gates and sub.gates[k].gate_type == G.INPUT for k in bsym):
                    sb = sub.evaluate_circuit(dict(bsym))
                    dd = [symeval.states_differ(oth[a], sb[b]) for a, b in zip(other.outputs, sub.outputs)]
                    r, m = p.check([z3.Or(*dd)] if dd else [z3.BoolVal(False)], label=f"block {name}")
                    if r == "sat":
                        problems.append(f"block {call['name']!r}.into_circuit() does not compute the attached circuit's function")
                elif ok:
                    problems.append(f"block {call['name']!r}.into_circuit() lacks the attached circuit's inputs as inputs")
                else:
                    p.count("block_with_identified_inputs_skipped")
        except Exception as e:  # noqa: BLE001
            problems.append(f"get_block({call['name']!r}).into_circuit() raised {type(e).__name__}: {e}")
    if problems:
        conn_kind = "internal-connector" if any(
            (other.gates[o].gate_type != G.INPUT) for o in other_c) else "input-connector"
        p.violation(
            f"compose:{'right' if right else 'left'}:{conn_kind if right else 'x'}:{'named' if call['name'] else 'unnamed'}:{problems[0].split(' ')[0][:30]}",
            f"{call}: {problems[:2]} | base {circ.describe(base0)} | other {circ.describe(other)}",
            src + "from checks.c10 import reference_compose, effective_connectors\n"
            "b0=copy.deepcopy(circ.netlist_of(base))\n"
            "tc,oc,right=effective_connectors(base, other, call)\n"
            "net,ei,eo,mp=reference_compose(base, other, tc, oc, right, call['name'], call['add_prefix'])\n"
            "so=circ.snapshot(other)\ndo_call(base, other, call)\nbad=[]\n"
            "if circ.snapshot(other)!=so: bad.append('other modified')\n"
            "if list(base.inputs)!=ei: bad.append(('inputs',list(base.inputs),ei))\n"
            "if list(base.outputs)!=eo: bad.append(('outputs',list(base.outputs),eo))\n"
            "bad+=circ.wf_problems(base)\n"
            "if not bad:\n"
            "    try:\n        copy.copy(base)\n    except Exception as e:\n        bad.append(('copy raised', type(e).__name__))\n"
            "if not bad:\n"
            "    for x in itertools.product((False,True), repeat=len(ei)):\n"
            "        a=dict(zip(ei,x)); exp=ref_concrete(net,a)\n"
            "        full=base.evaluate_full_circuit(dict(a)); got=base.evaluate_circuit(dict(a))\n"
            "        d=[o for o in eo if got.get(o) is not exp[o] or full.get(o) is not exp[o]]\n"
            "        if d: bad.append(('value',a,d)); break\n"
            "if not bad and call['name']:\n"
            "    try:\n"
            "        sub=base.get_block(call['name']).into_circuit()\n"
            "        if len(set(mp[k] for k in other.inputs))==len(other.inputs) and (len(set(sub.inputs))!=len(sub.inputs) or circ.wf_problems(sub)): bad.append(('extracted block ill formed', list(sub.inputs)))\n"
            "        if len(set(mp[k] for k in other.inputs))==len(other.inputs) and list(sub.inputs)!=[mp[k] for k in other.inputs]: bad.append(('block input order', list(sub.inputs)))\n"
            "        for x in itertools.product((False,True), repeat=len(other.inputs)):\n"
            "            a=dict(zip(other.inputs,x)); eo_=ref_concrete(circ.netlist_of(other),a)\n"
            "            sb=sub.evaluate_circuit({mp[k]:v for k,v in a.items()})\n"
            "            if [eo_[o] for o in other.outputs]!=[sb[o] for o in sub.outputs]: bad.append(('block function',a)); break\n"
            "    except Exception as e:\n        bad.append(('block extraction raised', type(e).__name__, str(e)))\n"
            "print(bad)\nsys.exit(1 if bad else 0)\n",
        )
        return None
    return base


HIST_SRC = """
def output_functions(c, ins):
    import itertools
    rows = []
    for x in itertools.product((False, True), repeat=len(ins)):
        a = dict(zip(ins, x))
        a.update({i: False for i in c.inputs if i not in a})
        rows.append(c.evaluate_circuit(a))
    return rows


def history(kind, base, other, call):
    # Returns a list of problems for one composition history (empty = fine).
    import copy
    from vlib import circ
    from cirbo.core.circuit.exceptions import CircuitError
    bad = []
    if kind == 'copy-then-rename':
        do_call(base, other, call)
        before = circ.snapshot(base)
        cp = copy.copy(base)
        blk = cp.get_block(call['name'])
        victims = [g for g in blk.gates if g in cp.gates]
        if victims:
            cp.rename_gate(victims[0], 'renamed_in_the_copy')
        if circ.snapshot(base) != before:
            bad.append('renaming a gate in a copy changed the original (shared block lists)')
        try:
            base.get_block(call['name']).into_circuit()
        except Exception as e:
            bad.append('block of the original can no longer be extracted: ' + type(e).__name__)
    elif kind == 'block-dropped-then-same-name':
        do_call(base, other, call)
        base.delete_block(call['name'])
        ins, outs = list(base.inputs), list(base.outputs)
        ref = output_functions(base, ins)
        try:
            do_call(base, other, call)
        except CircuitError:
            return bad  # documented rejection of the clashing labels
        bad += circ.wf_problems(base)
        if not bad:
            now = output_functions(base, ins)
            for o in outs:
                if o in base.gates and any(r[o] is not n[o] for r, n in zip(ref, now)):
                    bad.append('an output that was there before now computes another function: ' + o)
                    break
    elif kind == 'reslice-named-block':
        do_call(base, other, call)
        blk = base.get_block(call['name'])
        if len(set(blk.inputs)) != len(blk.inputs):
            return bad  # two inputs of the attached circuit were identified with one base gate: extraction is not defined for that
        first = blk.into_circuit()
        try:
            base.make_block_from_slice('resliced', list(blk.inputs), list(blk.outputs))
        except CircuitError:
            return bad  # the slice is refused: nothing to compare
        again = base.get_block('resliced')
        if set(again.gates) & set(again.inputs):
            bad.append('a gate is both an input and a member of the re-sliced block: ' + str(sorted(set(again.gates) & set(again.inputs))))
        try:
            second = again.into_circuit()
            bad += ['re-sliced block: ' + x for x in circ.wf_problems(second)]
            copy.copy(second)
            if not bad and list(second.inputs) == list(first.inputs) and len(second.outputs) == len(first.outputs):
                ra, rb = output_functions(first, list(first.inputs)), output_functions(second, list(second.inputs))
                if any([r[o] for o in first.outputs] != [q[o] for o in second.outputs] for r, q in zip(ra, rb)):
                    bad.append('the block re-sliced by its own interface computes another function')
        except Exception as e:
            bad.append('re-sliced block cannot be extracted/copied: ' + type(e).__name__)
    elif kind == 'block-of-live-lists':
        try:
            base.make_block_from_slice('backup', base.inputs, base.outputs)
        except CircuitError:
            return bad
        b = base.get_block('backup')
        before = (list(b.inputs), list(b.gates), list(b.outputs))
        do_call(base, other, call)
        b = base.get_block('backup')
        if (list(b.inputs), list(b.gates), list(b.outputs)) != before:
            bad.append('a block made from the circuit own input/output lists changed when another circuit was attached')
    return bad
"""
exec(HIST_SRC)  # defines history  # noqa: S102


def check_history(p, name, kind, base0, other, call):
    from cirbo.core.circuit.exceptions import CircuitError

    base = rebuild(base0)
    p.case(("compose-history", kind, circ.snapshot(base0)[:3], circ.snapshot(other)[:3], repr(sorted(call.items()))),
           sample=f"{name}: history {kind} with {call}" if len(p.samples) < 6 else None)
    try:
        bad = history(kind, base, other, call)  # noqa: F821
    except CircuitError:
        p.count("rejected_calls")
        return
    except Exception as e:  # noqa: BLE001
        bad = [f"raised {type(e).__name__}: {e}"]
    if bad:
        p.violation(f"compose:history:{kind}:{bad[0].split(' ')[0][:24]}", f"{kind} with {call}: {bad[:2]} | base {circ.describe(base0)} | other {circ.describe(other)}",
                    REPLAY_PRELUDE + circ.circ_src(base0, "base") + "\n" + circ.circ_src(other, "other") + "\n" + CALL_SRC + HIST_SRC +
                    f"\ncall={call!r}\ntry:\n    bad=history({kind!r}, base, other, call)\nexcept Exception as e:\n    from cirbo.core.circuit.exceptions import CircuitError\n"
                    "    bad=[] if isinstance(e, CircuitError) else [repr(e)]\nprint(bad)\nsys.exit(1 if bad else 0)\n")


def gen_calls(rnd, base, other, n):
    calls = []
    for _ in range(n):
        name = rnd.choice(["", "", "B", "blk"])
        add_prefix = rnd.choice([True, True, False])
        kind = rnd.choice(["connect_circuit", "connect_circuit", "connect_circuit", "connect_left", "connect_right",
                           "connect_inputs", "extend_circuit", "add_circuit"])
        call = dict(kind=kind, name=name, add_prefix=add_prefix, right=False, this=[], other=[])
        if kind == "connect_circuit":
            right = rnd.random() < 0.5
            call["right"] = right
            if right:
                k = rnd.randint(0, len(base.inputs))
                call["this"] = rnd.sample(list(base.inputs), k)
                pool = list(other.gates)
                if len(pool) < k:
                    continue
                call["other"] = rnd.sample(pool, k)
            else:
                k = rnd.randint(0, len(other.inputs))
                call["other"] = rnd.sample(list(other.inputs), k)
                call["this"] = [rnd.choice(list(base.gates)) for _ in range(k)] if base.gates else []
                if k and not base.gates:
                    continue
        elif kind == "connect_left":
            if not base.gates and other.inputs:
                continue
            call["this"] = [rnd.choice(list(base.gates)) for _ in other.inputs]
        elif kind == "connect_right":
            pool = list(other.gates)
            if len(pool) < len(base.inputs):
                continue
            call["other"] = rnd.sample(pool, len(base.inputs))
        elif kind == "extend_circuit":
            call["right"] = rnd.random() < 0.5
            if rnd.random() < 0.5:
                # explicit connector lists, including the empty ones (= side by side) and partial ones
                call["explicit"] = True
                if call["right"]:
                    k2 = rnd.randint(0, min(len(base.inputs), len(other.gates)))
                    call["this"] = rnd.sample(list(base.inputs), k2)
                    call["other"] = rnd.sample(list(other.gates), k2)
                else:
                    k2 = rnd.randint(0, len(other.inputs)) if base.gates else 0
                    call["other"] = rnd.sample(list(other.inputs), k2)
                    call["this"] = [rnd.choice(list(base.gates)) for _ in range(k2)]
        calls.append(call)
    return calls


def unit(p, item, tier, seed):
    s = item
    rnd = random.Random(s)
    feats = [c for _, c in circgen.feature_circuits()]
    n_pairs = 14 if tier == "quick" else 40
    for i in range(n_pairs):
        def pick(prefix):
            if rnd.random() < 0.25:
                c = rnd.choice(feats)
                return rebuild(c)
            labels = [f"{prefix}{k}" for k in range(30)] if rnd.random() < 0.7 else None  # None => clashing labels x*/g*
            return circgen.random_circuit(rnd, rnd.randint(1, 3), rnd.randint(1, 5), max_arity=3, labels=labels,
                                          n_outputs=rnd.randint(1, 3))
        base, other = pick("b"), pick("o")
        rnd2 = random.Random(s * 7919 + i)  # own stream: the cases of the main stream stay what they were
        if rnd2.random() < 0.25 and len(other.gates) >= 2:
            # the attached circuit holds a label together with the same label under the prefix a named connection
            # gives it ('o1' next to 'B@o1'): every copied gate still gets prefix + its own label
            l1, l2 = rnd2.sample(list(other.gates), 2)
            twin = rnd2.choice(["B", "blk"]) + "@" + l1
            if twin not in other.gates:
                other.rename_gate(l2, twin)
        if rnd.random() < 0.25:
            other = copy.deepcopy(other)  # gate types equal to, but not identical with, the module constants
        if rnd.random() < 0.3:
            circgen.add_random_blocks(other, rnd, 1)
        for call in gen_calls(rnd, base, other, 6):
            res = check_call(p, f"seeded[{s}:{i}]", base, other, call)
            if res is not None:
                if call["name"]:
                    check_history(p, f"seeded[{s}:{i}]", "copy-then-rename", base, other, call)
                    check_history(p, f"seeded[{s}:{i}]", "block-dropped-then-same-name", base, other, call)
                    check_history(p, f"seeded[{s}:{i}]", "reslice-named-block", base, other, call)
                check_history(p, f"seeded[{s}:{i}]", "block-of-live-lists", base, other, call)
            if res is not None and rnd.random() < 0.5:
                # repeated composition (depth 2) on the result
                third = circgen.random_circuit(rnd, rnd.randint(1, 2), rnd.randint(1, 3), max_arity=2,
                                               labels=[f"t{k}" for k in range(10)])
                for call2 in gen_calls(rnd, res, third, 2):
                    call2["name"] = "" if call2["name"] == call["name"] else call2["name"]
                    check_call(p, f"seeded[{s}:{i}]", res, third, call2, depth_tag="/depth2")


def run(rep, tier, seed, only=None):
    symeval.install()
    thorough = tier == "thorough"
    rep.functions = ["Circuit.connect_circuit (both branches)", "connect_left / connect_right / connect_inputs / extend_circuit / add_circuit",
                     "Block.into_circuit", "Circuit.__copy__", "Circuit.evaluate_circuit / evaluate_full_circuit / top_sort"]
    rep.bounds = {"pairs": "seeded circuits <=3 inputs/<=5 gates and feature circuits; connectors: internal gates, repeated base gates (left), partial lists; both directions; name/add_prefix; clashing labels; depth-2 recomposition"}
    rep.outside = ["right-connect with a repeated other_connectors entry (docstring does not define it)",
                   "calls rejected with CircuitValidationError/CreateBlockError (not counted; they do not return normally)",
                   "block extraction when two inputs of the attached circuit were identified with one base gate"]
    rep.bounds['histories'] = 'per accepted call: copy then rename in the copy; named block dropped then the same name attached again; block made from the circuit own inputs/outputs lists then the call'
    rep.rule = "program = (base, attached, call); every kept output and every gate compared with the reference composition by z3 over all inputs"
    rep.explanation = "translation validation of each composition call"
    rep.pmap(unit, [seed * 131 + s for s in range(192 if thorough else 64)])
