"""C16 — the database codec never silently changes a circuit.

(a) BitWriter/BitReader executed on z3 bit-vector proxies by the forking executor
(b) binary_dict_io under CrossHair with symbolic str keys / bytes values
(c) encode_circuit/decode_circuit on a circuit family incl. out-of-format circuits;
    decoded outputs compared by z3, gate multiset by truth tables
"""
import collections
import importlib
import io
import itertools
import os
import random

import z3

from vlib import circ, circgen, forkexec, symeval, xh
from checks.common import REPLAY_PRELUDE

LEVEL = "other"
TECHNIQUE = "bounded symbolic execution (forking executor over z3 bit-vectors for bit I/O; CrossHair for the dictionary codec) + z3 equivalence of decoded circuits"
USES_STUBS = True

from cirbo.circuits_db import bit_io, circuits_encoding as CE  # noqa: E402
from cirbo.circuits_db.db import CircuitsDatabase  # noqa: E402
from cirbo.circuits_db.exceptions import BitIOError, CircuitsDatabaseError  # noqa: E402
from cirbo.core.circuit import Circuit, gate as G  # noqa: E402

VERIF = os.path.dirname(os.path.dirname(os.path.abspath(__file__)))
W = 24  # width of the symbolic integers


class SymInt:
    """Non-negative integer backed by a z3 bit-vector; branching forks through forkexec."""

    def __init__(self, term):
        self.term = term

    def __rshift__(self, k):
        return SymInt(z3.LShR(self.term, int(k)))

    def __and__(self, k):
        return SymInt(self.term & int(k))

    def __ne__(self, k):
        return SymCond(self.term != int(k))

    def __eq__(self, k):
        return SymCond(self.term == int(k))

    def __bool__(self):
        return forkexec.decide(self.term != 0)

    def __index__(self):
        v = 0
        for i in range(W):
            if forkexec.decide(z3.Extract(i, i, self.term) == 1):
                v |= 1 << i
        return v

    __int__ = __index__

    def to_bytes(self, *a, **k):
        return int(self).to_bytes(*a, **k)

    def bit_length(self):
        return int(self).bit_length()

    def __lt__(self, k):
        return SymCond(z3.ULT(self.term, int(k)))

    def __ge__(self, k):
        return SymCond(z3.UGE(self.term, int(k)))

    __hash__ = None


class SymCond:
    def __init__(self, term):
        self.term = term

    def __bool__(self):
        return forkexec.decide(self.term)


# --------------------------------------------------------------------- (a)
def bitio_unit(p, item, tier, seed):
    lengths, offset = item[0], item[1]
    pins = item[2] if len(item) > 2 else None
    peek = item[3] if len(item) > 3 else None  # bytes(writer) is taken once after this many numbers, then writing goes on
    vs = [z3.BitVec(f"v{i}", W) for i in range(len(lengths))]
    if pins is None:
        base = [z3.ULT(v, 1 << min(L + 1, W - 1)) for v, L in zip(vs, lengths)]  # allows one oversize bit
    else:
        # wide numbers: only `free` low bits are symbolic, the rest is pinned to a non-palindromic pattern
        base = []
        for v, L, (free, pattern) in zip(vs, lengths, pins):
            base.append(z3.Extract(W - 1, free, v) == ((pattern & ((1 << L) - 1)) >> free))

    def body():
        w = bit_io.BitWriter()
        for _ in range(offset):
            w.write(True)
        for i, (v, L) in enumerate(zip(vs, lengths)):
            if peek == i:
                bytes(w)  # an observer: taking the bytes written so far must not change what is written later
            w.write_number(SymInt(v), L)
        data = bytes(w)
        r = bit_io.BitReader(data)
        for _ in range(offset):
            r.read()
        got = [r.read_number(L) for L in lengths]
        # the rest of the last byte is zero padding
        rest = []
        try:
            while True:
                rest.append(r.read())
        except BitIOError:
            pass
        return data, got, rest

    paths, stats = forkexec.explore(body, base=base, max_paths=20000, catch=(Exception,))
    p.case(("bitio", tuple(lengths), offset, peek), sample=f"write_number lengths={lengths} after {offset} bits: {stats['paths']} paths" if len(p.samples) < 3 else None)
    p.count("bitio_paths", stats["paths"])
    p.queries["unsat"] += 1 if stats["covered"] else 0
    if not stats["covered"]:
        p.error(f"path coverage not proven for bit I/O {item}")
    for path in paths:
        fits = z3.And(*[z3.ULT(v, 1 << L) if L < W else z3.BoolVal(True) for v, L in zip(vs, lengths)])
        pc = z3.And(*base, path.cond())
        bad = None
        m = None
        if path.exc is not None:
            if not isinstance(path.exc, BitIOError):
                bad = f"raised {type(path.exc).__name__}: {path.exc}"
            else:
                # BitIOError only when some value does not fit
                r, m = p.check([pc, fits], label="bitio-raise")
                if r == "sat":
                    bad = "BitIOError although every value fits"
        else:
            data, got, rest = path.result
            r, m = p.check([pc, z3.Or(z3.Not(fits), *[v != g for v, g in zip(vs, got)])], label="bitio-roundtrip")
            if r == "sat":
                bad = f"read back {got}"
            elif any(rest) or len(rest) >= 8 or len(data) != (offset + sum(lengths) + 7) // 8:
                r, m = p.check([pc], label="bitio-padding")
                bad = f"padding/length wrong: {len(data)} bytes, trailing bits {rest}"
        if bad:
            if m is None:
                r, m = p.check([pc], label="bitio-witness")
            vals = [m.eval(v, model_completion=True).as_long() for v in vs]
            p.violation(f"bitio:{bad.split(' ')[0]}{':bytes-taken-midway' if peek is not None else ''}", f"write_number values {vals} lengths {lengths} offset {offset}{'' if peek is None else f' (bytes(writer) taken once after {peek} numbers)'}: {bad}",
                        REPLAY_PRELUDE + "from cirbo.circuits_db import bit_io\nfrom cirbo.circuits_db.exceptions import BitIOError\n"
                        f"vals={vals!r}; lengths={lengths!r}; offset={offset}; peek={peek!r}\nw=bit_io.BitWriter()\n"
                        "for _ in range(offset): w.write(True)\nbad=[]\nfits=all(v < (1<<L) for v,L in zip(vals,lengths))\n"
                        "try:\n    for i,(v,L) in enumerate(zip(vals,lengths)):\n        if peek==i: bytes(w)\n        w.write_number(v,L)\n    raised=False\nexcept BitIOError:\n    raised=True\n"
                        "if raised==fits: bad.append('BitIOError iff value does not fit violated')\n"
                        "if not raised:\n    data=bytes(w); r=bit_io.BitReader(data)\n    for _ in range(offset): r.read()\n"
                        "    got=[r.read_number(L) for L in lengths]\n    if got!=vals: bad.append(('roundtrip',got))\n"
                        "    if len(data)!=(offset+sum(lengths)+7)//8: bad.append('length')\n"
                        "print(bad); sys.exit(1 if bad else 0)\n")
            return


# --------------------------------------------------------------------- (c)
IN_FORMAT = {"NOT": 1, "IFF": 1, "AND": 2, "OR": 2, "NOR": 2, "NAND": 2, "XOR": 2, "NXOR": 2, "GEQ": 2, "GT": 2, "LEQ": 2, "LT": 2,
             "ALWAYS_TRUE": 2, "ALWAYS_FALSE": 2}
# The format fixes the operand count by gate type: one for NOT/IFF, two for every other type,
# constants included (tests/cirbo/circuits_db store ALWAYS_TRUE(A, B)); a constant without
# operands is therefore *outside* the format and must be rejected rather than mis-decoded.


def in_format(c):
    return all(g.gate_type.name == "INPUT" or IN_FORMAT.get(g.gate_type.name) == len(g.operands) for g in c.gates.values())


def codec_check(p, name, c):
    snap = circ.snapshot(c)
    src = REPLAY_PRELUDE + circ.circ_src(c) + "\nimport itertools, collections\nfrom cirbo.circuits_db import circuits_encoding as CE\nfrom cirbo.circuits_db.exceptions import CircuitsDatabaseError\nfrom checks.c16 import in_format\n"
    replay_body = ("bad=[]\nfmt=in_format(c)\n"
                   "try:\n    data=CE.encode_circuit(c)\n    d=CE.decode_circuit(data)\n"
                   "except CircuitsDatabaseError as e:\n    d=None\n    if fmt: bad.append(('in-format circuit rejected', type(e).__name__, str(e)))\n"
                   "except Exception as e:\n    d=None; bad.append(('non-codec exception', type(e).__name__, str(e)))\n"
                   "if d is not None:\n"
                   "    if (len(d.inputs),len(d.outputs),len(d.gates))!=(len(c.inputs),len(c.outputs),len(c.gates)): bad.append('counts')\n"
                   "    else:\n"
                   "        ta=c.get_truth_table(); tb=d.get_truth_table()\n"
                   "        if [list(r) for r in ta]!=[list(r) for r in tb]: bad.append('outputs differ')\n"
                   "        ga=collections.Counter(tuple(v) for v in c.get_gates_truth_table().values()); gb=collections.Counter(tuple(v) for v in d.get_gates_truth_table().values())\n"
                   "        if ga!=gb: bad.append('gate functions differ')\n"
                   "print(bad); sys.exit(1 if bad else 0)\n")
    p.case(("codec", snap[:3]), sample=f"{name}: {circ.describe(c)}" if len(p.samples) < 4 else None)
    fmt = in_format(c)
    kind = "in-format" if fmt else "out-of-format"
    types = "+".join(sorted({f"{g.gate_type.name}/{len(g.operands)}" for g in c.gates.values() if g.gate_type.name != "INPUT"
                             and IN_FORMAT.get(g.gate_type.name) != len(g.operands)}))[:50]
    try:
        data = CE.encode_circuit(c)
        d = CE.decode_circuit(data)
    except CircuitsDatabaseError as e:
        p.count("codec_error_raised")
        if fmt:
            shape = f"inputs={len(c.inputs)}:gates={'pow2' if (len(c.gates) & (len(c.gates) - 1)) == 0 else 'other'}:{'topo' if _storage_topological(c) else 'non-topological-storage'}"
            p.violation(f"codec:in-format-rejected:{type(e).__name__}:{shape}", f"{type(e).__name__}: {e} for in-format circuit {circ.describe(c)}", src + replay_body)
        return
    except Exception as e:  # noqa: BLE001
        p.violation(f"codec:{kind}:raises:{type(e).__name__}:{types}", f"{type(e).__name__}: {e} for {circ.describe(c)}", src + replay_body)
        return
    probs = []
    if circ.snapshot(c) != snap:
        probs.append("encoding modified the circuit")
    if (len(d.inputs), len(d.outputs), len(d.gates)) != (len(c.inputs), len(c.outputs), len(c.gates)):
        probs.append(f"counts differ: inputs/outputs/gates {(len(c.inputs), len(c.outputs), len(c.gates))} -> {(len(d.inputs), len(d.outputs), len(d.gates))}")
    probs += circ.wf_problems(d)
    if not probs:
        xs = [z3.Bool(f"x{i}") for i in range(len(c.inputs))]
        st = [symeval.SymState(x, False) for x in xs]
        oa, ob = c.evaluate(st), d.evaluate(st)
        dis = [symeval.states_differ(a, b) for a, b in zip(oa, ob)]
        r, m = p.check([z3.Or(*dis)] if dis else [z3.BoolVal(False)], label=f"codec {name}")
        if r == "sat":
            probs.append(f"decoded circuit computes a different function on {[symeval.model_bool(m, x) for x in xs]}")
        elif len(c.inputs) <= 6:
            ga = collections.Counter(tuple(v) for v in c.get_gates_truth_table().values())
            gb = collections.Counter(tuple(v) for v in d.get_gates_truth_table().values())
            if ga != gb:
                probs.append("gate-for-gate functions differ")
    if probs:
        p.violation(f"codec:{kind}:silent:{types or probs[0].split(' ')[0]}", f"{probs[:2]}: {circ.describe(c)} -> {circ.describe(d)}", src + replay_body)
        return
    # the same bytes decoded again after the caller edited the first result: an independent, identical circuit
    hist = ("d1=CE.decode_circuit(data)\nbefore=circ.snapshot(d1)\n"
            "lab=[l for l in d1.gates][-1]\nd1.emplace_gate('edited_by_the_caller', __import__('cirbo.core.circuit', fromlist=['gate']).gate.NOT, (lab,))\nd1.set_outputs(list(d1.outputs)+['edited_by_the_caller'])\n"
            "d2=CE.decode_circuit(data)\nbad=[] if circ.snapshot(d2)==before and d2 is not d1 else ['decoding the same bytes again gives ' + circ.describe(d2)]\n")
    env_ = {"CE": CE, "circ": circ, "data": data}
    try:
        exec(hist, env_)  # noqa: S102
        hbad = env_["bad"]
    except Exception as e:  # noqa: BLE001
        hbad = [f"raised {type(e).__name__}: {e}"]
    if hbad:
        p.violation(f"codec:{kind}:decode-twice", f"{hbad[:1]} after the first result was edited; first decode gave {circ.describe(d)}",
                    src + "data=CE.encode_circuit(c)\n" + hist + "print(bad); sys.exit(1 if bad else 0)\n")


def _storage_topological(c):
    seen = set(c.inputs)
    for lab, g in c.gates.items():
        if g.gate_type.name == "INPUT":
            continue
        if any(o not in seen for o in g.operands):
            return False
        seen.add(lab)
    return True


def codec_family(rnd, count, thorough):
    fam = list(circgen.feature_circuits()) + circgen.large_circuits(0)
    # zero inputs with 2^k gates; zero outputs; many outputs
    for k in (1, 2, 3, 4):
        gates = [("t0", G.ALWAYS_TRUE, ())] + [(f"n{i}", G.NOT, (f"n{i - 1}" if i > 1 else "t0",)) for i in range(1, 1 << k)]
        fam.append((f"zero-inputs-{1 << k}-gates-bare-constant", circgen.build([], gates, [gates[-1][0]])))
        # in-format variant is impossible without inputs (a constant needs two operands), so also 1 input:
        gates = [("t0", G.ALWAYS_TRUE, ("a", "a"))] + [(f"n{i}", G.NOT, (f"n{i - 1}" if i > 1 else "t0",)) for i in range(1, (1 << k) - 1)]
        fam.append((f"one-input-{1 << k}-gates", circgen.build(["a"], gates, [gates[-1][0]])))
    # counts and identifiers around powers of two: the word size must fit the largest of them, whichever it is
    for n_in in (1, 2, 3, 4, 7, 8, 9, 16, 32):
        ins = [f"x{i}" for i in range(n_in)]
        for n_g in sorted({0, 1, max(0, 8 - n_in), max(0, 16 - n_in), max(0, 17 - n_in)}):
            if not thorough and n_g > 1 and n_in not in (2, 4, 8):
                continue
            gates = [(f"n{i}", G.NOT if i % 2 else G.AND, ((f"n{i - 1}" if i else ins[-1]),) if i % 2 else ((f"n{i - 1}" if i else ins[0]), ins[i % n_in])) for i in range(n_g)]
            last = gates[-1][0] if gates else ins[-1]
            for outs in ([last], [ins[0]], [], ins[:], [last] * (n_in + n_g + 1)):
                fam.append((f"sizes-{n_in}-inputs-{n_g}-gates-{len(outs)}-outputs", circgen.build(ins, gates, outs)))
    fam.append(("many-outputs", circgen.build(["a"], [("n", G.NOT, ("a",))], ["a", "n"] * 5)))
    fam.append(("constant-with-operands", circgen.build(["a", "b"], [("k", G.ALWAYS_FALSE, ("a", "b")), ("o", G.OR, ("k", "a"))], ["o"])))
    fam.append(("constant-with-operands-unsorted", circgen.build(["a", "b"], [("k", G.ALWAYS_TRUE, ("o2", "a")), ("o2", G.OR, ("b", "a"))], ["k"], ["k", "b", "o2", "a"])))
    fam.append(("nary-and", circgen.build(["a", "b", "c"], [("g", G.AND, ("a", "b", "c"))], ["g"])))
    fam.append(("nary-xor4-internal", circgen.build(["a", "b", "c", "d"], [("g", G.XOR, ("a", "b", "c", "d")), ("o", G.AND, ("g", "a"))], ["o"])))
    pools = [
        [G.NOT, G.IFF, G.AND, G.OR, G.NOR, G.NAND, G.XOR, G.NXOR, G.GEQ, G.GT, G.LEQ, G.LT, G.ALWAYS_TRUE, G.ALWAYS_FALSE],
        None,
    ]
    for i in range(count):
        pool = pools[0] if i % 3 else pools[1]
        c = circgen.random_circuit(rnd, rnd.randint(0 if i % 5 == 0 else 1, 5), rnd.randint(1, 10), pool=pool, max_arity=2 if i % 3 else 3,
                                   n_outputs=rnd.randint(0, 3), shuffle_storage=bool(i % 2))
        fam.append((f"seeded[{i}]", c))
    return fam


def codec_unit(p, item, tier, seed):
    rnd = random.Random(item)
    for name, c in codec_family(rnd, 40 if tier == "quick" else 120, tier == "thorough"):
        codec_check(p, name, c)
    # CircuitsDatabase in-memory round trip
    db = CircuitsDatabase()
    db.open()
    stored = {}
    for i in range(10):
        c = circgen.random_circuit(rnd, rnd.randint(1, 4), rnd.randint(1, 6), pool=[G.NOT, G.AND, G.OR, G.XOR, G.NAND], max_arity=2, n_outputs=rnd.randint(1, 2))
        lab = f"lab{i}_é" if i % 2 else f"lab{i}"
        try:
            db.add_circuit(c, lab)
            stored[lab] = c
        except CircuitsDatabaseError:
            pass
    buf = io.BytesIO()
    try:
        db.save(buf)
        db2 = CircuitsDatabase(io.BytesIO(buf.getvalue()))
        db2.open()
        p.case(("db-roundtrip", item), sample="CircuitsDatabase add/save/open/get_by_label round trip with ASCII and non-ASCII labels" if len(p.samples) < 6 else None)
        for lab, c in stored.items():
            d = db2.get_by_label(lab)
            if d is None or [list(r) for r in d.get_truth_table()] != [list(r) for r in c.get_truth_table()]:
                p.violation("db:roundtrip", f"circuit stored under {lab!r} does not come back after save/open",
                            REPLAY_PRELUDE + "import io\nfrom cirbo.circuits_db.db import CircuitsDatabase\n" + circ.circ_src(c) +
                            f"\ndb=CircuitsDatabase(); db.open(); db.add_circuit(c, {lab!r}); b=io.BytesIO(); db.save(b)\n"
                            "try:\n    d2=CircuitsDatabase(io.BytesIO(b.getvalue())); d2.open(); d=d2.get_by_label(" + repr(lab) + ")\n"
                            "    ok = d is not None and [list(r) for r in d.get_truth_table()]==[list(r) for r in c.get_truth_table()]\n"
                            "except Exception as e:\n    print(type(e).__name__, e); ok=False\nsys.exit(0 if ok else 1)\n")
                break
    except Exception as e:  # noqa: BLE001
        lab = [l for l in stored if "é" in l][:1] or list(stored)[:1]
        c = stored[lab[0]]
        p.violation(f"db:roundtrip:{type(e).__name__}", f"save/open of a database with labels {list(stored)} raised {type(e).__name__}: {e}",
                    REPLAY_PRELUDE + "import io\nfrom cirbo.circuits_db.db import CircuitsDatabase\n" + circ.circ_src(c) +
                    f"\ndb=CircuitsDatabase(); db.open(); db.add_circuit(c, {lab[0]!r}); b=io.BytesIO(); db.save(b)\n"
                    "try:\n    d2=CircuitsDatabase(io.BytesIO(b.getvalue())); d2.open(); ok=d2.get_by_label(" + repr(lab[0]) + ") is not None\n"
                    "except Exception as e:\n    print(type(e).__name__, e); ok=False\nsys.exit(0 if ok else 1)\n")


# --------------------------------------------------------------------- (b)
XH_FUNCS = ["roundtrip1", "roundtrip2", "truncated_rejected", "trailing_rejected", "reachability_twin"]


def xh_unit(p, item, tier, seed):
    func, timeout = item
    path = os.path.join(VERIF, "xh", "dict_io.py")
    res = xh.check(path, func, timeout_s=timeout)
    p.case(("xh", func), sample=f"CrossHair {func}: {res['status']} in {res['secs']:.0f}s")
    p.solver_s += res["secs"]
    if func == "reachability_twin":
        p.canary(res["status"] == "counterexample")
        return
    if res["status"] == "confirmed":
        p.queries["unsat"] += 1
    elif res["status"] == "counterexample":
        p.queries["sat"] += 1
        call = res["call"]
        p.violation(f"dictio:{func}:{'non-ascii-key' if any(ord(ch) > 127 for ch in call) or chr(92) in call else 'other'}",
                    f"CrossHair counterexample {call}: {res['message'][:200]}",
                    "sys.path.insert(0, os.path.join(" + repr(VERIF) + ", 'xh'))\nimport dict_io\nfrom dict_io import *\n"
                    f"try:\n    ok = bool({call})\nexcept Exception as e:\n    print(type(e).__name__, e); ok=False\nprint(ok); sys.exit(0 if ok else 1)\n")
    else:
        p.queries["unknown"] += 1
        p.inconclusive.append(f"CrossHair {func}: {res['status']} ({res['message'][:120]})")


def dict_concrete_unit(p, item, tier, seed):
    """Concrete companion of (b): bounded exhaustive keys over a small alphabet incl. non-ASCII."""
    from cirbo.circuits_db.binary_dict_io import read_binary_dict, write_binary_dict
    from cirbo.circuits_db.exceptions import BinaryDictIOError

    # the empty dictionary: exact round trip, every strict prefix and any trailing byte rejected
    p.case(("dict-empty",))
    buf = io.BytesIO()
    write_binary_dict({}, buf)
    data = buf.getvalue()
    bad = None
    try:
        if read_binary_dict(io.BytesIO(data)) != {}:
            bad = "empty dictionary does not round trip"
        for cut in range(len(data)):
            try:
                read_binary_dict(io.BytesIO(data[:cut]))
                bad = f"truncated empty dictionary ({cut} bytes) accepted"
            except BinaryDictIOError:
                pass
        for extra in (b"\x00", b"\x01", b"abc"):
            try:
                read_binary_dict(io.BytesIO(data + extra))
                bad = "trailing data after an empty dictionary accepted"
            except BinaryDictIOError:
                pass
    except Exception as e:  # noqa: BLE001
        bad = f"{type(e).__name__}: {e}"
    if bad:
        p.violation("dictio:concrete:empty-dictionary", bad,
                    "import io\nfrom cirbo.circuits_db.binary_dict_io import read_binary_dict, write_binary_dict\nfrom cirbo.circuits_db.exceptions import BinaryDictIOError\n"
                    "b=io.BytesIO(); write_binary_dict({}, b); d=b.getvalue(); bad=False\n"
                    "for x in (d+b'\\x00', d+b'abc', d[:-1], d[:3], b''):\n    try:\n        read_binary_dict(io.BytesIO(x)); bad=True\n    except BinaryDictIOError:\n        pass\n"
                    "sys.exit(1 if bad or read_binary_dict(io.BytesIO(d))!={} else 0)\n")
    # lengths on both sides of every sign / width boundary of the length fields
    from cirbo.circuits_db import binary_dict_io as BD

    for which, nbytes in (("key", BD.DICT_KEY_BYTE_SIZE), ("value", BD.DICT_VALUE_BYTE_SIZE)):
        top = (1 << (8 * nbytes)) - 1
        for ln in sorted({0, 1, 127, 128, 255, 256, 32767, 32768, 40000, 65535, 65536, top} & set(range(0, min(top, 70000) + 1))):
            k, v = ("k" * ln, b"v") if which == "key" else ("k", b"\x01" * ln)
            d = {k: v, "other": b"x"}
            p.case(("dict-len", which, ln), sample=f"dictionary with a {which} of {ln} bytes" if ln in (32768, 65535) else None)
            buf = io.BytesIO()
            bad = None
            try:
                write_binary_dict(d, buf)
                if read_binary_dict(io.BytesIO(buf.getvalue())) != d:
                    bad = "round trip differs"
            except Exception as e:  # noqa: BLE001
                bad = f"{type(e).__name__}: {e}"
            if bad:
                p.violation(f"dictio:concrete:{which}-of-{ln}-bytes", f"{which} of {ln} bytes (limit {top}): {bad}",
                            "import io\nfrom cirbo.circuits_db.binary_dict_io import read_binary_dict, write_binary_dict\n"
                            f"k, v = {('\'k\' * ' + str(ln) + ', b\'v\'') if which == 'key' else ('\'k\', b\'\\x01\' * ' + str(ln))}\nd={{k: v, 'other': b'x'}}\nb=io.BytesIO()\n"
                            "try:\n    write_binary_dict(d,b); ok = read_binary_dict(io.BytesIO(b.getvalue()))==d\nexcept Exception as e:\n    print(type(e).__name__, e); ok=False\nsys.exit(0 if ok else 1)\n")
                return
    alphabet = ["a", "\x00", "é", "€", "\U0001F600"]
    keys = [""] + ["".join(t) for n in (1, 2) for t in itertools.product(alphabet, repeat=n)]
    vals = [b"", b"\x00", b"ab\xff"]
    for k in keys:
        for v in vals[: (3 if len(k) < 2 else 1)]:
            d = {k: v, "z" + k: v + b"!"}
            p.case(("dict", k, v))
            buf = io.BytesIO()
            bad = None
            try:
                write_binary_dict(d, buf)
                data = buf.getvalue()
                if read_binary_dict(io.BytesIO(data)) != d:
                    bad = "round trip differs"
                else:
                    for cut in range(len(data)):
                        try:
                            read_binary_dict(io.BytesIO(data[:cut]))
                            bad = f"truncated data ({cut} of {len(data)} bytes) accepted"
                            break
                        except BinaryDictIOError:
                            pass
                    try:
                        read_binary_dict(io.BytesIO(data + b"\x00"))
                        bad = bad or "trailing byte accepted"
                    except BinaryDictIOError:
                        pass
            except Exception as e:  # noqa: BLE001
                bad = f"{type(e).__name__}: {e}"
            if bad:
                p.violation(f"dictio:concrete:{'non-ascii-key' if any(ord(ch) > 127 for ch in k) else 'ascii'}:{bad.split(' ')[0].split(':')[0]}",
                            f"dictionary {d!r}: {bad}",
                            "import io\nfrom cirbo.circuits_db.binary_dict_io import read_binary_dict, write_binary_dict\n"
                            f"d={d!r}\nb=io.BytesIO()\ntry:\n    write_binary_dict(d,b); ok = read_binary_dict(io.BytesIO(b.getvalue()))==d\n"
                            "except Exception as e:\n    print(type(e).__name__, e); ok=False\nsys.exit(0 if ok else 1)\n")
                return


def run(rep, tier, seed, only=None):
    symeval.install()
    thorough = tier == "thorough"
    rep.functions = ["bit_io.BitWriter.write/write_number/write_byte/__bytes__", "bit_io.BitReader.read/read_number/read_byte",
                     "binary_dict_io.write_binary_dict/read_binary_dict (+ helpers)", "circuits_encoding.encode_circuit/decode_circuit (+ _get_word_size, _enumerate_gates, _get_arity, _encode_gate, _decode_gate)",
                     "CircuitsDatabase.add_circuit/save/open/get_by_label"]
    rep.bounds = {"bit I/O": "<=3 numbers, total symbolic bits <= 10 (quick) / 12 (thorough), every split and bit offset 0..7; values one bit wider than the length (oversize branch)",
                  "dictionary (CrossHair)": "<=2 entries, keys <=3 characters, values <=3 bytes", "dictionary (concrete companion)": "all keys of length <=2 over {a, NUL, é, €, emoji}",
                  "circuits": "feature family + special shapes (0 inputs with 2^k gates, n-ary, constants with operands, out-of-topological storage) + seeded <=5 inputs/<=10 gates"}
    rep.outside = ["numbers/lengths beyond the listed bit budget (per-bit forking makes the executor enumerate)", "dictionaries with more than 2 entries or longer keys under CrossHair"]
    rep.bounds['histories'] = 'decode - caller edits the result - decode the same bytes again (every encodable circuit of the family)'
    rep.rule = "cases: (lengths, offset) bit-I/O explorations with proven path coverage; CrossHair conditions; circuits through the codec (z3 equivalence of decoded outputs)"
    rep.explanation = ("bit I/O: every path of the real writer/reader over symbolic numbers is explored, coverage proven by z3, round-trip decided per path; "
                       "dictionary codec: CrossHair over symbolic str/bytes (inconclusive results are reported as such); circuits: z3 equivalence original vs decoded")
    sub = lambda n: only is None or only in n  # noqa: E731
    if sub("bitio"):
        budget = 12 if thorough else 10
        items = []
        for k in (1, 2, 3):
            for lens in itertools.product(range(0, budget + 1), repeat=k):
                if sum(lens) <= budget and (k == 1 or sum(lens) >= budget - 2 or sum(lens) <= 3):
                    for off in ((0, 3, 7) if not thorough else range(8)):
                        if sum(lens) + (1 if k else 0) <= budget:
                            items.append((list(lens), off))
        rnd = random.Random(seed)
        rnd.shuffle(items)
        items = items[: (400 if thorough else 60)]
        # the same with bytes(writer) observed once in the middle of the stream
        items += [(lens, off, None, k) for lens, off in [it[:2] for it in items[: (120 if thorough else 24)]] for k in range(len(lens)) if off + sum(lens[:k]) > 0]
        # byte-aligned wide numbers (16, 24, 32 bits at offsets 0 and 8): high bits pinned, low bits symbolic
        wide = (([16], 0), ([16], 8), ([24], 0), ([8, 16], 0))
        if thorough:
            wide += (([16, 16], 0), ([3, 16], 5), ([20], 4), ([W - 1], 0), ([16], 16))
        for lens, off in wide:
            items.append((lens, off, [(6 if thorough else 4, 0x5A3C9 >> (0 if L >= 20 else 4)) for L in lens]))
        rep.pmap(bitio_unit, items)
    if sub("codec"):
        rep.pmap(codec_unit, [seed * 17 + s for s in range(16 if thorough else 8)])
    if sub("dict"):
        rep.pmap(dict_concrete_unit, [0])
        rep.pmap(xh_unit, [(f, 240 if thorough else 45) for f in XH_FUNCS])
