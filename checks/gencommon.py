"""Shared by C07/C08/C09: run a real generator inside a host circuit and turn the
result into z3 bit-vector terms (operands are *cut points*: fresh symbolic values
are assigned directly on the operand gates, whatever they are in the host)."""
import random

import z3

from vlib import circ, circgen, refsem, symeval

from cirbo.core.circuit import Circuit, gate as G

AIG_FORBIDDEN = {"XOR", "NXOR"}


_LITERALS = None


def source_literals():
    """Identifier-like string literals of the generator modules (current source): used as *labels*
    of operand gates, because the properties quantify over arbitrary host labels."""
    global _LITERALS
    if _LITERALS is None:
        import ast
        import glob
        import os
        import re

        from vlib import env

        found = []
        for path in sorted(glob.glob(os.path.join(env.REPO, "cirbo", "synthesis", "generation", "**", "*.py"), recursive=True)):
            try:
                tree = ast.parse(open(path).read())
            except SyntaxError:
                continue
            scopes = [n for n in ast.walk(tree) if isinstance(n, (ast.FunctionDef, ast.AsyncFunctionDef))]
            scopes += [n for n in tree.body if isinstance(n, ast.Assign) and isinstance(n.value, ast.Constant)]
            for scope in scopes:
                doc = ast.get_docstring(scope) if isinstance(scope, ast.FunctionDef) else None
                for node in ast.walk(scope):
                    if isinstance(node, ast.Constant) and isinstance(node.value, str) and node.value != doc \
                            and re.fullmatch(r"[A-Za-z_][A-Za-z0-9_]{1,24}", node.value) and node.value not in found:
                        found.append(node.value)
        _LITERALS = found
    return _LITERALS


class Host:
    """A circuit in which a generator is asked to build its gadget."""

    def __init__(self, kind, widths, rnd):
        """kind: 'fresh' (operands are primary inputs), 'host' (operands are arbitrary gates of an
        existing circuit, internal ones included), 'repeat' (as host, one gate used twice)."""
        self.kind = kind
        total = sum(widths)
        if kind == "fresh":
            self.c = Circuit.bare_circuit(total, prefix="in")
            labs = list(self.c.inputs)
        elif kind == "literal-labels":
            lits = list(source_literals())
            rnd.shuffle(lits)
            labs = (lits + [f"lit{i}" for i in range(total)])[:total]
            self.c = Circuit.bare_circuit_with_labels(labs)
        else:
            n_in = max(2, (total + 1) // 2)
            self.c = circgen.random_circuit(rnd, n_in, max(total, 3), pool=[G.AND, G.OR, G.XOR, G.NOT, G.NAND, G.GT],
                                            max_arity=2, n_outputs=rnd.randint(0, 2), labels=[f"h{i}" for i in range(n_in + max(total, 3))])
            pool = list(self.c.gates)
            rnd.shuffle(pool)
            while len(pool) < total:
                extra = f"hx{len(pool)}"
                self.c.add_inputs([extra])
                pool.append(extra)
            labs = pool[:total]
            if kind == "repeat" and total >= 2:
                labs[-1] = labs[0]
            if kind == "dup-outputs":
                outs = [rnd.choice(list(self.c.gates)) for _ in range(2)]
                self.c.set_outputs([outs[0], outs[1], outs[0]])
        self.operands = []
        k = 0
        for w in widths:
            self.operands.append(labs[k:k + w])
            k += w
        if kind == "repeat2" and len(widths) >= 2 and widths[0] == widths[1]:
            self.operands[1] = list(self.operands[0])  # the same gates as both operands
        if kind in ("rotated2", "reversed2", "other-repeats2") and len(widths) >= 2 and widths[0] == widths[1]:
            # the second operand is made of the same gates as the first, in another order or with other repeats
            a = list(self.operands[0])
            if kind == "rotated2":
                self.operands[1] = a[1:] + a[:1]
            elif kind == "reversed2":
                self.operands[1] = a[::-1]
            elif len(a) >= 3:
                self.operands[0] = [a[0], a[0]] + a[1:-1]
                self.operands[1] = [a[0]] + a[1:-1] + [a[-2]]
        self._total = total
        self.refresh()

    def refresh(self, edited=False):
        """(Re)take the snapshot the generator's effect is measured against."""
        self.before_net = circ.netlist_of(self.c)
        self.before_inputs = list(self.c.inputs)
        self.before_outputs = list(self.c.outputs)
        self.before_src = circ.circ_src(self.c)
        bare = self.kind == "fresh" and len(self.c.gates) == self._total
        self.before_desc = f"bare circuit with {self._total} inputs" if bare else circ.describe(self.c)

    # ------------------------------------------------------------------
    def cut_assignment(self):
        """Fresh z3 variable per distinct operand gate and per host input."""
        zs = {}
        for ops in self.operands:
            for l in ops:
                if l not in zs:
                    zs[l] = z3.Bool(f"v_{l}")
        for l in self.before_inputs:
            if l not in zs:
                zs[l] = z3.Bool(f"v_{l}")
        for l in self.c.inputs:
            if l not in zs:
                zs[l] = z3.Bool(f"v_{l}")
        return zs

    def terms(self, labels, zs):
        """z3 Bool per label through the real lazy evaluator with cut points."""
        sym = {l: symeval.SymState(v, False) for l, v in zs.items()}
        # a requested label that is itself a cut point keeps its assigned value (the lazy
        # evaluator would recompute a requested output from its operands)
        res = self.c.evaluate_circuit(dict(sym), outputs=[l for l in labels if l not in zs])
        res.update(sym)
        out = []
        for l in labels:
            s = symeval.lift(res[l])
            out.append((symeval.zb(s.t), symeval.zb(s.u)))
        return out

    def structural_problems(self, result_labels, expect_outputs=None, allowed_forbidden=None, allow_input_order_change=False):
        """Only fresh gates added; interface untouched (unless asked); well formed; basis."""
        probs = []
        after = circ.netlist_of(self.c)
        for l, v in self.before_net.items():
            if l not in after:
                probs.append(f"pre-existing gate {l} disappeared")
            elif after[l] != v:
                probs.append(f"pre-existing gate {l} was rewritten")
        flat = [l for l in result_labels]
        for l in flat:
            if l not in after:
                probs.append(f"returned label {l!r} is not a gate of the circuit")
        if sorted(self.c.inputs) != sorted(self.before_inputs):
            probs.append("set of inputs changed")
        elif not allow_input_order_change and list(self.c.inputs) != self.before_inputs:
            probs.append("order of inputs changed")
        if expect_outputs is not None and list(self.c.outputs) != list(expect_outputs):
            probs.append(f"outputs are {list(self.c.outputs)}, expected {list(expect_outputs)}")
        probs += circ.wf_problems(self.c)
        new = [l for l in after if l not in self.before_net]
        if allowed_forbidden:
            bad = sorted({after[l][0] for l in new} & set(allowed_forbidden))
            if bad:
                probs.append(f"gate types outside the requested basis: {bad}")
        return probs, new

    def old_gates_unchanged_query(self, zs_inputs_only=True):
        """z3 disagreement list: every pre-existing gate keeps its function (over host inputs)."""
        zs = {l: z3.Bool(f"w_{l}") for l in self.c.inputs}
        ref = refsem.denote({k: v for k, v in self.before_net.items()}, {l: zs[l] for l in self.before_inputs})
        sym = {l: symeval.SymState(v, False) for l, v in zs.items()}
        now = self.c.evaluate_circuit(dict(sym), outputs=list(self.before_net))
        dis = []
        for l in self.before_net:
            s = symeval.lift(now[l])
            dis.append(z3.Or(symeval.zb(s.u), symeval.zb(s.t) != ref[l]))
        return dis


def bv(bits, width):
    return refsem.bv_of_bits(bits, width)


def weighted_sum(bit_level_pairs, width):
    """Σ bit·2^level as a bit-vector of `width` bits."""
    acc = z3.BitVecVal(0, width)
    for b, lev in bit_level_pairs:
        acc = acc + (z3.ZeroExt(width - 1, z3.If(b, z3.BitVecVal(1, 1), z3.BitVecVal(0, 1))) << lev)
    return acc


def model_values(model, zs):
    return {l: symeval.model_bool(model, v) for l, v in zs.items()}


def concrete_values(c, assign, labels):
    """Concrete counterpart of Host.terms for replays (cut points keep their assigned value)."""
    res = c.evaluate_circuit(dict(assign), outputs=[l for l in labels if l not in assign])
    res.update(assign)
    return {l: res[l] for l in labels}


def one_shot(case):
    """Argument shape: about one case in five hands the operand labels over as one-shot iterators (the generators'
    signatures say Iterable).  Decided by the case itself so that a replay takes the same shape."""
    import zlib

    if "one_shot" in case:
        return bool(case["one_shot"])
    return zlib.crc32(repr(sorted((k, repr(v)) for k, v in case.items())).encode()) % 5 == 0


def elsewhere_first(case, _invoke):
    """History across circuits: about one case in seven (decided by the case, so replays agree), or any case that
    asks for it, first builds the same gadget in an unrelated fresh circuit.  Nothing of that may be remembered."""
    import zlib

    from cirbo.core.circuit import Circuit

    wanted = case.get("history") == "another-circuit-first" or (
        "history" not in case and not case.get("live_outputs") and sum(case.get("widths", [99])) <= 24
        and zlib.crc32(("elsewhere" + repr(sorted((k, repr(v)) for k, v in case.items()))).encode()) % 7 == 0)
    if not wanted:
        return
    w = case["widths"]
    other = Circuit.bare_circuit(sum(w))
    labs, ops, k = list(other.inputs), [], 0
    for n in w:
        ops.append(labs[k:k + n])
        k += n
    try:
        _invoke(dict(case, one_shot=False), other, ops)
    except Exception:  # noqa: BLE001 - whatever the gadget thinks of this circuit, the measured call is the next one
        pass


class OneShot(list):
    """A label list that the callee receives as a one-shot iterator, kept as a list for the harness."""

    def shot(self):
        return iter(list(self))


def handed_over(x):
    return x.shot() if isinstance(x, OneShot) else x


class OperandLists:
    """Operand label lists handed to a generator as real `list` objects (optionally the *same*
    object for two operands).  A generator must not modify its caller's lists."""

    def __init__(self, operands, alias=False):
        self.lists = [list(o) for o in operands]
        if alias and len(self.lists) >= 2 and self.lists[0] == self.lists[1]:
            self.lists[1] = self.lists[0]
        self.before = [list(x) for x in self.lists]

    def check(self):
        if [list(x) for x in self.lists] != self.before:
            raise AssertionError("the generator modified its caller's operand list(s)")
