"""C06 — exact synthesis is sound and complete for the requested size and basis.

The clause list of the real `CircuitFinderSat.get_cnf()` (after the real
fix_gate / forbid_wire calls) is bridged to z3 with the real allocator's variable
names.  The *whole candidate circuit* (predecessor selectors S, gate tables F,
output placement G) is symbolic.  Per configuration:
  A  CNF ∧ ¬Spec(S,F,G)                          unsat  (every CNF model is admissible)
  B  Spec(S,F,G) ∧ ¬CNF[x_{g,t} := X_ref(S,F)]    unsat  (every admissible circuit extends)
then find_circuit (plain / time-limited) against z3's verdict on Spec, and
_get_circuit_by_model on several different models.
"""
import itertools
import random

import z3

from vlib import circ, report, symeval
from checks.common import REPLAY_PRELUDE

LEVEL = "other"
TECHNIQUE = "bounded SMT over a fully symbolic candidate netlist: CNF of the real encoder vs reference specification (two validity queries per configuration)"
USES_STUBS = True

from cirbo.core.circuit import gate as G  # noqa: E402
from cirbo.core.logic import DontCare  # noqa: E402
from cirbo.core.truth_table import TruthTableModel  # noqa: E402
from cirbo.synthesis import circuit_search as CS  # noqa: E402
from cirbo.synthesis.exception import NoSolutionError, SolverTimeOutError  # noqa: E402

OPS = {op.name: op for op in CS.Operation}
# reference tables (index 2p+q), from the statement of C01 -- independent of Operation.value
REF_TT = {
    "always_false_": "0000", "always_true_": "1111", "lnot_": "1100", "liff_": "0011", "rnot_": "1010", "riff_": "0101",
    "or_": "0111", "nor_": "1000", "and_": "0001", "nand_": "1110", "xor_": "0110", "nxor_": "1001",
    "gt_": "0010", "lt_": "0100", "geq_": "1011", "leq_": "1101",
}
REF_BASIS = {
    "AIG": ["lnot_", "and_", "or_", "nand_", "nor_", "gt_", "lt_", "geq_", "leq_"],
    "XAIG": ["lnot_", "and_", "or_", "nand_", "nor_", "gt_", "lt_", "geq_", "leq_", "xor_", "nxor_"],
    "FULL": list(REF_TT),
}
TYPE_TT = {  # GateType name -> table of its reference function at (p,q)
    "AND": "0001", "OR": "0111", "XOR": "0110", "NAND": "1110", "NOR": "1000", "NXOR": "1001", "GT": "0010", "LT": "0100",
    "GEQ": "1011", "LEQ": "1101", "LNOT": "1100", "RNOT": "1010", "LIFF": "0011", "RIFF": "0101", "ALWAYS_TRUE": "1111", "ALWAYS_FALSE": "0000",
}


def basis_ops(cfg):
    b = cfg["basis"]
    if isinstance(b, list):
        return list(b)
    return REF_BASIS[b.split(":")[-1].upper()]


def build_finder(cfg):
    """Real CircuitFinderSat configured from plain data, with the real constraint calls applied."""
    tt = [[DontCare if v == "*" else bool(v) for v in row] for row in cfg["tt"]]
    b = cfg["basis"]
    if isinstance(b, list):
        basis = [OPS[o] for o in b]
    elif b.startswith("enum:"):
        basis = CS.Basis[b[5:]]
    else:
        basis = b
    model = TruthTableModel(tt)
    if cfg.get("model_copy") == "deepcopy":
        import copy

        model = copy.deepcopy(model)  # don't-cares equal to, but not identical with, the DontCare constant
    elif cfg.get("model_copy") == "pickle":
        import pickle

        model = pickle.loads(pickle.dumps(model))
    f = CS.CircuitFinderSat(model, cfg["r"], basis=basis, need_normalized=cfg.get("norm", False))
    from cirbo.synthesis import exception as EX

    for con in cfg.get("constraints", []):
        try:
            if con[0].startswith("fix"):
                _, g, first, second, tname = con
                f.fix_gate(g, first_predecessor=first, second_predecessor=second, gate_type=getattr(G, tname) if tname else None)
            else:
                f.forbid_wire(con[1], con[2])
        except (EX.FixGateError, EX.FixGateOrderError, EX.ForbidWireOrderError, EX.GateIsAbsentError):
            if not con[0].endswith("!"):
                raise
            continue  # a call the finder rejected (and the caller caught): it imposes nothing
        if con[0].endswith("!"):
            raise RejectedCallAccepted(con)
    return f


class RejectedCallAccepted(Exception):
    """A deliberately ill-ordered constraint call was not rejected: the configuration says nothing then."""


def imposed(cfg):
    """The constraints that were imposed (calls the finder rejects impose nothing)."""
    return [c for c in cfg.get("constraints", []) if not c[0].endswith("!")]


def dims(cfg):
    n_out = len(cfg["tt"])
    rows = len(cfg["tt"][0]) if n_out else 1
    n = rows.bit_length() - 1
    return n, n_out, cfg["r"]


def input_bit(n, i, t):
    return bool((t >> (n - 1 - i)) & 1)


class SymCircuit:
    """z3 variables S, F, G named as the real encoder names them."""

    def __init__(self, cfg):
        self.n, self.m, self.r = dims(cfg)
        self.gates = list(range(self.n, self.n + self.r))
        self.S = {(g, a, b): z3.Bool(f"s_{g}_{a}_{b}") for g in self.gates for a, b in itertools.combinations(range(g), 2)}
        self.F = {(g, p, q): z3.Bool(f"f_{g}_{p}_{q}") for g in self.gates for p in (0, 1) for q in (0, 1)}
        self.Gv = {(h, g): z3.Bool(f"g_{h}_{g}") for h in range(self.m) for g in self.gates}

    def xref(self, rows):
        """gate -> row -> z3 Bool value computed from S and F."""
        X = {}
        for i in range(self.n):
            X[i] = {t: z3.BoolVal(input_bit(self.n, i, t)) for t in rows}
        for g in self.gates:
            X[g] = {}
            for t in rows:
                alts = []
                for a, b in itertools.combinations(range(g), 2):
                    va, vb = X[a][t], X[b][t]
                    val = z3.If(va, z3.If(vb, self.F[(g, 1, 1)], self.F[(g, 1, 0)]), z3.If(vb, self.F[(g, 0, 1)], self.F[(g, 0, 0)]))
                    alts.append(z3.And(self.S[(g, a, b)], val))
                X[g][t] = z3.Or(*alts) if alts else z3.BoolVal(False)
        return X


def exactly_one(vs):
    if not vs:
        return z3.BoolVal(False)
    return z3.And(z3.Or(*vs), *[z3.Not(z3.And(a, b)) for a, b in itertools.combinations(vs, 2)])


def spec(cfg, sc):
    """Reference specification of an admissible circuit over (S,F,G)."""
    n, m, r = sc.n, sc.m, sc.r
    tt = cfg["tt"]
    rows = range(1 << n)
    cons = []
    for g in sc.gates:
        cons.append(exactly_one([sc.S[(g, a, b)] for a, b in itertools.combinations(range(g), 2)]))
    for h in range(m):
        cons.append(exactly_one([sc.Gv[(h, g)] for g in sc.gates]))
    X = sc.xref(rows)
    for h in range(m):
        for t in rows:
            if tt[h][t] == "*":
                continue
            val = z3.Or(*[z3.And(sc.Gv[(h, g)], X[g][t]) for g in sc.gates]) if sc.gates else z3.BoolVal(False)
            cons.append(val == bool(tt[h][t]))
    allowed = [REF_TT[o] for o in basis_ops(cfg)]
    for g in sc.gates:
        cons.append(z3.Or(*[z3.And(*[sc.F[(g, i // 2, i % 2)] == (s[i] == "1") for i in range(4)]) for s in allowed]) if allowed else z3.BoolVal(False))
        if cfg.get("norm"):
            cons.append(z3.Not(sc.F[(g, 0, 0)]))
    for con in imposed(cfg):
        if con[0] == "fix":
            _, g, first, second, tname = con
            if first is not None and second is not None:
                cons.append(sc.S[(g, first, second)])
            else:
                p = first if first is not None else second
                cons.append(z3.Or(*[v for (gg, a, b), v in sc.S.items() if gg == g and p in (a, b)]) if any(gg == g and p in (a, b) for (gg, a, b) in sc.S) else z3.BoolVal(False))
            if tname:
                s = TYPE_TT[tname]
                cons += [sc.F[(g, i // 2, i % 2)] == (s[i] == "1") for i in range(4)]
        else:
            _, u, v = con
            cons += [z3.Not(var) for (gg, a, b), var in sc.S.items() if gg == v and u in (a, b)]
    return z3.And(*cons) if cons else z3.BoolVal(True)


def admissible_problems(cfg, c):
    """Concrete admissibility of a returned Circuit (used by harness and replays)."""
    n, m, r = dims(cfg)
    probs = []
    exp_labels = [str(i) for i in range(n)] + [f"s{g}" for g in range(n, n + r)]
    if list(c.gates) != exp_labels and sorted(c.gates) != sorted(exp_labels):
        return [f"gates {list(c.gates)} are not inputs 0..{n - 1} plus s{n}..s{n + r - 1}"]
    if list(c.inputs) != [str(i) for i in range(n)]:
        probs.append(f"inputs {c.inputs}")
    idx = {lab: i for i, lab in enumerate(exp_labels)}
    allowed = {REF_TT[o] for o in basis_ops(cfg)}
    preds = {}
    for g in range(n, n + r):
        gate = c.gates[f"s{g}"]
        if len(gate.operands) != 2:
            probs.append(f"s{g} is not binary")
            continue
        a, b = idx.get(gate.operands[0], 99), idx.get(gate.operands[1], 99)
        preds[g] = (a, b)
        if not (a < g and b < g):
            probs.append(f"s{g} reads a later gate")
        table = TYPE_TT.get(gate.gate_type.name)
        if table is None or table not in allowed:
            probs.append(f"s{g} has type {gate.gate_type.name} outside the basis")
        if cfg.get("norm") and table and table[0] == "1":
            probs.append(f"s{g} is not normalised (g(0,0)=1)")
    if len(c.outputs) != m:
        probs.append(f"{len(c.outputs)} outputs instead of {m}")
    for o in c.outputs:
        if not o.startswith("s"):
            probs.append(f"output {o} is not taken at a gate")
    if not probs:
        for t in range(1 << n):
            val = c.evaluate([input_bit(n, i, t) for i in range(n)])
            for h in range(m):
                if cfg["tt"][h][t] != "*" and bool(val[h]) != bool(cfg["tt"][h][t]):
                    probs.append(f"output {h} is {val[h]} on row {t}, model says {cfg['tt'][h][t]}")
    for con in imposed(cfg):
        if con[0] == "fix":
            _, g, first, second, tname = con
            if g in preds:
                if first is not None and second is not None and tuple(sorted(preds[g])) != (first, second):
                    probs.append(f"fix_gate: s{g} reads {preds[g]} instead of ({first},{second})")
                for pgiven in (first, second):
                    if pgiven is not None and pgiven not in preds[g]:
                        probs.append(f"fix_gate: {pgiven} is not a predecessor of s{g}")
                if tname and c.gates[f"s{g}"].gate_type.name != tname:
                    probs.append(f"fix_gate: s{g} has type {c.gates[f's{g}'].gate_type.name}, fixed {tname}")
        else:
            _, u, v = con
            if v in preds and u in preds[v]:
                probs.append(f"forbid_wire: {u} feeds s{v}")
    return probs


def witness_circuit_src(model, sc):
    """Python source building the circuit described by a model of Spec."""
    from cirbo.synthesis.circuit_search import _tt_to_gate_type

    lines = ["from cirbo.core.circuit import Circuit, Gate\nfrom cirbo.core.circuit import gate as G\nw=Circuit()"]
    for i in range(sc.n):
        lines.append(f"w.add_gate(Gate('{i}', G.INPUT))")
    name = lambda k: str(k) if k < sc.n else f"s{k}"  # noqa: E731
    for g in sc.gates:
        pair = [(a, b) for (gg, a, b), v in sc.S.items() if gg == g and symeval.model_bool(model, v)]
        a, b = pair[0]
        table = "".join("1" if symeval.model_bool(model, sc.F[(g, p, q)]) else "0" for p in (0, 1) for q in (0, 1))
        tname = [k for k, v in TYPE_TT.items() if v == table][0]
        lines.append(f"w.add_gate(Gate('s{g}', G.{tname}, ('{name(a)}', '{name(b)}')))")
    for h in range(sc.m):
        gg = [g for g in sc.gates if symeval.model_bool(model, sc.Gv[(h, g)])][0]
        lines.append(f"w.mark_as_output('s{gg}')")
    return "\n".join(lines)


def key_of(cfg, what):
    kinds = sorted({(c[0] + (":second-only" if c[0] == "fix" and c[1:4][1] is None and c[3] is not None else ":first-only" if c[0] == "fix" and c[3] is None else "")
                     + (":type" if c[0] == "fix" and c[4] else "")) for c in cfg.get("constraints", [])})
    b = cfg["basis"] if isinstance(cfg["basis"], str) else "custom"
    return f"synth:{what}:{b}:{'norm:' if cfg.get('norm') else ''}{'+'.join(kinds) or 'plain'}"


HEAD = REPLAY_PRELUDE + "from checks import c06\nfrom cirbo.synthesis.exception import NoSolutionError\n"


PRISTINE = {}


def stock_bases_problem():
    """The stock bases are shared by every finder of the process: a search must not edit them."""
    for b in CS.Basis:
        now = [getattr(o, "name", str(o)) for o in b.value]
        if b.name not in PRISTINE:
            PRISTINE[b.name] = now
        elif PRISTINE[b.name] != now:
            return f"Basis.{b.name} was {PRISTINE[b.name]} and is now {now}"
    return None


def check_config(p, cfg, deep):
    stock_bases_problem()
    _check_config(p, cfg, deep)
    prob = stock_bases_problem()
    if prob:
        PRISTINE.clear()
        p.violation(key_of(cfg, "stock-basis-edited"), f"after the search for {cfg}: {prob}",
                    HEAD + f"cfg={cfg!r}\n" + "c06.stock_bases_problem()\ntry:\n    c06.build_finder(cfg).find_circuit()\nexcept Exception as e:\n    print(type(e).__name__)\n"
                    "prob=c06.stock_bases_problem()\nprint(prob); sys.exit(1 if prob else 0)\n")


def _check_config(p, cfg, deep):
    n, m, r = dims(cfg)
    try:
        finder = build_finder(cfg)
        cnf = [list(cl) for cl in finder.get_cnf()]
        names = dict(finder._vpool.obj2id)
    except Exception as e:  # noqa: BLE001
        from cirbo.synthesis import exception as EX

        if isinstance(e, (EX.FixGateError, EX.FixGateOrderError, EX.ForbidWireOrderError, EX.GateIsAbsentError, RejectedCallAccepted)):
            p.count("config_rejected")
            return
        p.violation(key_of(cfg, f"raises:{type(e).__name__}"), f"{cfg} raised {type(e).__name__}: {e}",
                    HEAD + f"cfg={cfg!r}\ntry:\n    c06.build_finder(cfg).get_cnf()\nexcept Exception as e:\n    print(type(e).__name__, e); sys.exit(1)\nsys.exit(0)\n")
        return
    p.case(("c06", repr(sorted(cfg.items(), key=str))), sample=f"{cfg}: {len(cnf)} clauses, {len(names)} variables" if len(p.samples) < 3 else None)
    sc = SymCircuit(cfg)
    byname = {}
    byname.update({f"s_{g}_{a}_{b}": v for (g, a, b), v in sc.S.items()})
    byname.update({f"f_{g}_{pp}_{q}": v for (g, pp, q), v in sc.F.items()})
    byname.update({f"g_{h}_{g}": v for (h, g), v in sc.Gv.items()})
    V = {}
    xvars = {}
    for nm, vid in names.items():
        if nm in byname:
            V[vid] = byname[nm]
        else:
            V[vid] = z3.Bool(nm)
            if nm.startswith("x_"):
                _, g, t = nm.split("_")
                xvars[vid] = (int(g), int(t))
    maxid = max([abs(l) for cl in cnf for l in cl] + [0])
    for vid in range(1, maxid + 1):
        V.setdefault(vid, z3.Bool(f"anon_{vid}"))

    def lit(l):
        return V[l] if l > 0 else z3.Not(V[-l])

    cnf_term = z3.And(*[z3.Or(*[lit(l) for l in cl]) if cl else z3.BoolVal(False) for cl in cnf]) if cnf else z3.BoolVal(True)
    sp = spec(cfg, sc)
    # ---- A: every CNF model is an admissible circuit
    rA, mA = p.check([cnf_term, z3.Not(sp)], label=f"A {cfg}")
    if rA == "sat":
        model = [vid if symeval.model_bool(mA, V[vid]) else -vid for vid in range(1, maxid + 1)]
        p.violation(key_of(cfg, "A-inadmissible-model"), f"the CNF has a model that is not an admissible circuit for {cfg}",
                    HEAD + f"cfg={cfg!r}\nmodel={model!r}\nf=c06.build_finder(cfg)\ncnf=f.get_cnf()\n"
                    "ms=set(model)\nsat_all=all(any(l in ms for l in cl) for cl in cnf)\n"
                    "try:\n    c=f._get_circuit_by_model(model)\n    probs=c06.admissible_problems(cfg, c)\nexcept Exception as e:\n    probs=['decoding raised '+type(e).__name__+': '+str(e)]\n"
                    "print('model satisfies cnf:', sat_all, 'problems of decoded circuit:', probs)\nsys.exit(1 if sat_all and probs else 0)\n")
        return
    # ---- B: every admissible circuit extends to a CNF model
    X = sc.xref(sorted({t for (_, t) in xvars.values()}))
    sub = [(V[vid], X[g][t]) for vid, (g, t) in xvars.items()]
    g_term = z3.substitute(cnf_term, *sub) if sub else cnf_term
    rB, mB = p.check([sp, z3.Not(g_term)], label=f"B {cfg}")
    if rB == "sat":
        wsrc = witness_circuit_src(mB, sc)
        p.violation(key_of(cfg, "B-admissible-circuit-excluded"), f"an admissible circuit exists that no CNF model describes, for {cfg}",
                    HEAD + f"cfg={cfg!r}\n" + wsrc + "\nprobs=c06.admissible_problems(cfg, w)\n"
                    "f=c06.build_finder(cfg); cnf=f.get_cnf(); names=f._vpool.obj2id\n"
                    "n,m,r=c06.dims(cfg)\nidx={str(i):i for i in range(n)}; idx.update({f's{g}':g for g in range(n,n+r)})\n"
                    "assume=[]\n"
                    "for g in range(n,n+r):\n"
                    "    gt=w.gates[f's{g}']; a,b=sorted(idx[o] for o in gt.operands)\n"
                    "    assume.append(names[f's_{g}_{a}_{b}'])\n"
                    "    for pq in range(4):\n"
                    "        v=names[f'f_{g}_{pq//2}_{pq%2}']; assume.append(v if c06.TYPE_TT[gt.gate_type.name][pq]=='1' else -v)\n"
                    "for h,o in enumerate(w.outputs): assume.append(names[f'g_{h}_{idx[o]}'])\n"
                    "from pysat.solvers import Solver\ns=Solver(bootstrap_with=cnf)\nok=s.solve(assumptions=assume)\n"
                    "print('witness admissible:', not probs, probs, 'cnf accepts it:', ok)\nsys.exit(1 if not probs and not ok else 0)\n")
        return
    if p.canaries_run < 2 and sc.gates and sc.n >= 2 and "FULL" in str(cfg["basis"]).upper() and any(v != "*" for row in cfg["tt"] for v in row) \
            and not cfg.get("constraints"):
        # canary (vacuity guard): without the clauses tying outputs to the model table, A must fail
        idname = {vid: nm for nm, vid in names.items()}
        def is_match_clause(cl):
            return len(cl) == 2 and idname.get(abs(cl[0]), "").startswith("g_") and idname.get(abs(cl[1]), "").startswith("x_")
        weak = [cl for cl in cnf if not is_match_clause(cl)]
        wt = z3.And(*[z3.Or(*[lit(l) for l in cl]) if cl else z3.BoolVal(False) for cl in weak]) if weak else z3.BoolVal(True)
        rC, _ = p.check([wt, z3.Not(sp)], label="canary")
        p.canary(rC == "sat")
    # ---- end to end
    rS, mS = p.check([sp], label=f"exists {cfg}")
    exists = rS == "sat"
    src_e2e = (HEAD + f"cfg={cfg!r}\ntl={cfg.get('time_limit')!r}\n"
               "try:\n    c=c06.build_finder(cfg).find_circuit(time_limit=tl)\n    probs=c06.admissible_problems(cfg, c); found=True\n"
               "except NoSolutionError:\n    found=False; probs=[]\n")
    try:
        c = build_finder(cfg).find_circuit(time_limit=cfg.get("time_limit"))
        found = True
    except NoSolutionError:
        found, c = False, None
    except SolverTimeOutError:
        p.count("solver_timeouts")
        return
    except Exception as e:  # noqa: BLE001
        p.violation(key_of(cfg, f"find_circuit-raises:{type(e).__name__}"), f"find_circuit raised {type(e).__name__}: {e} for {cfg}",
                    src_e2e.replace("except NoSolutionError:", "except NoSolutionError:") + "print(found, probs)\nsys.exit(0)\n")
        return
    p.count("found" if found else "no_solution")
    if found:
        probs = admissible_problems(cfg, c)
        if probs:
            p.violation(key_of(cfg, "returned-circuit-inadmissible"), f"find_circuit returned {circ.describe(c)} for {cfg}: {probs[:3]}",
                        src_e2e + "print(found, probs)\nsys.exit(1 if found and probs else 0)\n")
            return
        if not exists:
            p.error(f"find_circuit returned an admissible circuit but Spec is unsat for {cfg}: specification bug")
    elif exists:
        wsrc = witness_circuit_src(mS, sc)
        p.violation(key_of(cfg, "no-solution-reported-but-one-exists"), f"find_circuit raised NoSolutionError although an admissible circuit exists, for {cfg}",
                    src_e2e + wsrc + "\nwp=c06.admissible_problems(cfg, w)\nprint('found', found, 'witness problems', wp)\nsys.exit(1 if (not found and not wp) else 0)\n")
        return
    # ---- decoding of several different models
    if deep and exists:
        import pysat.solvers as PS

        finder = build_finder(cfg)
        clauses = [list(cl) for cl in finder.get_cnf()]
        for k in range(6):
            PS.MODEL_SEED = k + 1
            try:
                model = CS._solve_cnf("cadical195", clauses)
            finally:
                PS.MODEL_SEED = None
            if model is None:
                break
            try:
                cc = finder._get_circuit_by_model(model)
                probs = admissible_problems(cfg, cc)
            except Exception as e:  # noqa: BLE001
                probs = [f"decoding raised {type(e).__name__}: {e}"]
            p.count("models_decoded")
            if probs:
                p.violation(key_of(cfg, "decode"), f"_get_circuit_by_model gives an inadmissible circuit for {cfg}: {probs[:2]}",
                            HEAD + f"cfg={cfg!r}\nmodel={model!r}\nf=c06.build_finder(cfg); f.get_cnf()\n"
                            "try:\n    probs=c06.admissible_problems(cfg, f._get_circuit_by_model(model))\nexcept Exception as e:\n    probs=[repr(e)]\nprint(probs); sys.exit(1 if probs else 0)\n")
                return
            # block this (S,F,G) choice
            block = [-l for l in model if finder._vpool.obj(abs(l)) and finder._vpool.obj(abs(l))[0] in "sfg"]
            clauses.append(block)


CUSTOM = [["and_", "xor_"], ["nand_"], ["gt_"], ["leq_", "always_false_"], ["lnot_", "or_"], ["riff_", "rnot_", "and_"], ["xor_", "always_true_"]]


def random_constraints(rnd, n, r, kinds=None):
    cons = []
    gates = list(range(n, n + r))
    if not gates:
        return cons
    for _ in range(rnd.randint(1, 2)):
        kind = rnd.choice(kinds or ["fix-both", "fix-first", "fix-second", "fix-type", "forbid", "forbid"])
        g = rnd.choice(gates)
        if kind == "forbid":
            cons.append(("forbid", rnd.randrange(0, g), g))
            continue
        if g < 2:
            continue
        a, b = sorted(rnd.sample(range(g), 2))
        tname = rnd.choice(list(TYPE_TT)) if (kind == "fix-type" or rnd.random() < 0.3) else None
        if kind == "fix-both" or kind == "fix-type":
            cons.append(("fix", g, a, b, tname))
        elif kind == "fix-first":
            cons.append(("fix", g, a, None, tname))
        else:
            cons.append(("fix", g, None, b, tname))
    return cons


def make_configs(tier, rnd):
    thorough = tier == "thorough"
    cfgs = []
    bases = ["enum:AIG", "enum:XAIG", "enum:FULL", "AIG", "xaig", "FULL"]
    # n = 1
    for tt in itertools.product([0, 1, "*"], repeat=2):
        for r in (0, 1, 2):
            cfgs.append(dict(tt=[list(tt)], r=r, basis=rnd.choice(bases)))
    # n = 2, one output: every model table (with don't-cares)
    tables = list(itertools.product([0, 1, "*"], repeat=4))
    for tt in tables:
        for r in (1, 2, 3):
            bs = bases[:3] + [rnd.choice(CUSTOM)] if thorough else [rnd.choice(bases), rnd.choice(CUSTOM + bases)]
            for b in bs:
                cfgs.append(dict(tt=[list(tt)], r=r, basis=b, norm=rnd.random() < 0.25))
    # n = 2, two outputs
    for _ in range(400 if thorough else 80):
        tt = [[rnd.choice([0, 1, 1, 0, "*"]) for _ in range(4)] for _ in range(2)]
        cfgs.append(dict(tt=tt, r=rnd.randint(1, 4), basis=rnd.choice(bases + CUSTOM), norm=rnd.random() < 0.2))
        if _ % 3 == 0:
            # the model went through deepcopy / pickle: its don't-cares are equal to DontCare without being that object
            cfgs.append(dict(tt=tt, r=rnd.randint(1, 3), basis=rnd.choice(bases[:3]), model_copy=rnd.choice(["deepcopy", "pickle"])))
    for mc in ("deepcopy", "pickle"):
        cfgs.append(dict(tt=[[0, 0, 0, 1], [0, 1, 1, "*"]], r=2, basis="enum:AIG", model_copy=mc))
        cfgs.append(dict(tt=[[0, 1, 1, "*"], ["*", 0, 0, 1]], r=2, basis="enum:XAIG", model_copy=mc))
        cfgs.append(dict(tt=[["*", 1, 1, 0]], r=1, basis="enum:FULL", model_copy=mc))
    # the empty operation list is a basis too (no gate is allowed: no circuit with r >= 1 gates exists), and so are
    # one-element lists and lists given as tuples
    for tt_, r_ in (([[0, 1, 1, 0]], 1), ([[0, 0, 0, 1]], 1), ([["*", "*", "*", "*"]], 1), ([[0, 1, 1, 0], [0, 0, 0, 1]], 2), ([[0, 1]], 1), ([[0, 1, 1, 1, 1, 1, 1, 0]], 2)):
        cfgs.append(dict(tt=tt_, r=r_, basis=[]))
        cfgs.append(dict(tt=tt_, r=r_, basis=["xor_"]))
    # n = 3
    for _ in range(300 if thorough else 50):
        m = rnd.choice([1, 1, 2])
        tt = [[rnd.choice([0, 1, 0, 1, "*"]) for _ in range(8)] for _ in range(m)]
        cfgs.append(dict(tt=tt, r=rnd.randint(1, 3), basis=rnd.choice(bases + CUSTOM[:2]), norm=rnd.random() < 0.2))
    # n = 4 (thorough only): 16 rows, r <= 3
    if thorough:
        for _ in range(60):
            tt = [[rnd.choice([0, 1, 0, 1, "*", "*"]) for _ in range(16)]]
            r4 = rnd.randint(1, 3)
            cfgs.append(dict(tt=tt, r=r4, basis=rnd.choice(bases[:3]), norm=rnd.random() < 0.2,
                             constraints=random_constraints(rnd, 4, r4)[:1] if rnd.random() < 0.3 else []))
    # constraints: each kind alone, then seeded combinations
    for kind in ["fix-both", "fix-first", "fix-second", "fix-type", "forbid"]:
        for _ in range(60 if thorough else 14):
            n = rnd.choice([2, 2, 3])
            r = rnd.randint(1, 3 if n == 3 else 4)
            tt = [[rnd.choice([0, 1, 0, 1, "*"]) for _ in range(1 << n)]]
            cons = random_constraints(rnd, n, r, [kind])[:1]
            if cons:
                cfgs.append(dict(tt=tt, r=r, basis=rnd.choice(bases[:3]), constraints=cons))
    # the textbook instance: x0 AND x1 over three inputs with only a second predecessor fixed
    cfgs.append(dict(tt=[[0, 0, 0, 0, 0, 0, 1, 1]], r=1, basis="enum:XAIG", constraints=[("fix", 3, None, 2, None)]))
    for _ in range(200 if thorough else 40):
        n = rnd.choice([2, 3])
        r = rnd.randint(1, 3)
        tt = [[rnd.choice([0, 1, 0, 1, "*"]) for _ in range(1 << n)] for _ in range(rnd.choice([1, 1, 2]))]
        cfgs.append(dict(tt=tt, r=r, basis=rnd.choice(bases + CUSTOM[:3]), norm=rnd.random() < 0.3, constraints=random_constraints(rnd, n, r)))
    # constraint calls the finder rejects (ill-ordered predecessors, with and without a type); the caller catches the error and goes on
    for _ in range(120 if thorough else 30):
        n = rnd.choice([2, 2, 3])
        r = rnd.randint(1, 3)
        tt = [[rnd.choice([0, 1, 0, 1, "*"]) for _ in range(1 << n)]]
        g = rnd.randrange(n, n + r)
        tname = rnd.choice(list(TYPE_TT)) if rnd.random() < 0.7 else None
        kind = rnd.choice(["swapped", "lone-first-too-big", "lone-second-too-big", "forbid-backwards"])
        if kind == "swapped" and g >= 2:
            a, b = sorted(rnd.sample(range(g), 2))
            bad = ("fix!", g, b, a, tname)
        elif kind == "lone-first-too-big":
            bad = ("fix!", g, rnd.randrange(g, n + r), None, tname)
        elif kind == "lone-second-too-big":
            bad = ("fix!", g, None, rnd.randrange(g, n + r), tname)
        else:
            bad = ("forbid!", g, rnd.randrange(0, g + 1)) if g > 0 else None
        if bad is None:
            continue
        rest = random_constraints(rnd, n, r)[:1] if rnd.random() < 0.5 else []
        cfgs.append(dict(tt=tt, r=r, basis=rnd.choice(bases[:3]), constraints=[bad] + rest if rnd.random() < 0.7 else rest + [bad]))
    # several outputs over disjoint groups of inputs (a budget between "one tree per group" and "one tree over all inputs")
    and2, xor2 = [0, 0, 0, 1], [0, 1, 1, 0]
    t_and = [and2[(t >> 2) & 3] for t in range(16)]   # x0 & x1
    t_xor = [xor2[t & 3] for t in range(16)]          # x2 ^ x3
    for r in (1, 2, 3):
        for b in ("enum:FULL", "enum:XAIG"):
            cfgs.append(dict(tt=[t_and, t_xor], r=r, basis=b))
    cfgs.append(dict(tt=[t_xor, t_and], r=2, basis="enum:AIG"))
    # more than ten outputs (output indices with two digits)
    rows12 = [[0, 0, 0, 1]] * 5 + [[0, 1, 1, 0]] + [[0, 0, 0, 1]] * 4 + [[0, 1, 1, 0], [0, 0, 0, 1]]
    cfgs.append(dict(tt=[list(r_) for r_ in rows12], r=2, basis="enum:XAIG"))
    cfgs.append(dict(tt=[[0, 1, 1, 1] if i % 3 == 0 else [0, 1, 1, 0] if i % 3 == 1 else [0, 0, 0, 1] for i in range(11)], r=3, basis="enum:FULL"))
    # a few through the time-limited (forked) solver path
    for c in rnd.sample(cfgs, 12 if thorough else 4):
        cfgs.append(dict(c, time_limit=30))
    return cfgs


def unit(p, item, tier, seed):
    for i, cfg in enumerate(item):
        check_config(p, cfg, deep=(i % 4 == 0))


TIMEOUT_SRC = """
def timed_out_search(cfg):
    # environment: the time-limited solver call ends the way pebble documents for an expired limit
    from checks import c06
    from checks.c04 import timeouts_at
    from cirbo.synthesis.exception import NoSolutionError
    try:
        with timeouts_at({0}):
            c06.build_finder(cfg).find_circuit(time_limit=5)
        return 'returned a circuit although the solver call timed out'
    except NoSolutionError as e:
        return 'the expired time limit is reported as "no solution exists" (' + type(e).__name__ + ' is a NoSolutionError)'
    except Exception:
        return None
"""
exec(TIMEOUT_SRC)  # noqa: S102


def timeout_unit(p, item, tier, seed):
    """An instance that has a solution, searched under a time limit that expires: whatever is raised, it must not be
    (a kind of) NoSolutionError -- 'no solution' is reported exactly when none exists."""
    for cfg in item:
        cfg = {k: v for k, v in cfg.items() if k != "time_limit"}
        try:
            build_finder(cfg).find_circuit()
        except Exception:  # noqa: BLE001
            continue  # no solution (or a rejected configuration): nothing to say about a time-out here
        p.case(("timeout", repr(cfg)), sample=f"time limit expires on the satisfiable {cfg}" if len(p.samples) < 2 else None)
        bad = timed_out_search(cfg)  # noqa: F821
        p.queries["sat" if bad else "unsat"] += 1
        if bad:
            p.violation("find_circuit:time-limit-expired:reported-as-no-solution", f"{bad} for {cfg}",
                        HEAD + TIMEOUT_SRC + f"cfg={cfg!r}\nbad=timed_out_search(cfg)\nprint(bad); sys.exit(1 if bad else 0)\n")
            return


REUSE_SRC = """
def constrain_after_search(cfg, which):
    # one finder object: search, then impose a constraint the first answer violates, then search again.
    # The second answer obeys the new constraint too; 'no solution' the second time exactly when a fresh finder
    # with all constraints says so.
    from checks import c06
    from cirbo.core.circuit import gate as G
    from cirbo.synthesis.exception import NoSolutionError
    n, m, r = c06.dims(cfg)
    f = c06.build_finder(cfg)
    try:
        c1 = f.find_circuit()
    except NoSolutionError:
        return None
    labels = [str(i) for i in range(n)] + ['s%d' % g for g in range(n, n + r)]
    idx = {lab: i for i, lab in enumerate(labels)}
    g = n + (which % r)
    a, b = sorted(idx[o] for o in c1.gates['s%d' % g].operands)
    if which % 3 == 2:
        # a fix_gate call the first answer does not satisfy: other predecessors, if there are any
        others = [(x, y) for x in range(g) for y in range(x + 1, g) if (x, y) != (a, b)]
        if not others:
            return None
        x, y = others[which % len(others)]
        extra = ('fix', g, x, y, None)
        f.fix_gate(g, first_predecessor=x, second_predecessor=y)
    else:
        u = (a, b)[which % 2]
        extra = ('forbid', u, g)
        f.forbid_wire(u, g)
    cfg2 = dict(cfg, constraints=list(cfg.get('constraints', [])) + [extra])
    try:
        fresh = c06.build_finder(cfg2).find_circuit()
    except NoSolutionError:
        fresh = None
    try:
        c2 = f.find_circuit()
    except NoSolutionError:
        return None if fresh is None else 'second search on the same finder reports no solution after %r although one exists' % (extra,)
    probs = c06.admissible_problems(cfg2, c2)
    if probs:
        return 'second search on the same finder after %r returned an inadmissible circuit: %r' % (extra, probs[:3])
    if fresh is None:
        return 'second search on the same finder returned a circuit after %r although a fresh finder finds none' % (extra,)
    return None
"""
exec(REUSE_SRC)  # noqa: S102


def reuse_unit(p, item, tier, seed):
    for k, cfg in enumerate(item):
        cfg = {kk: v for kk, v in cfg.items() if kk != "time_limit"}
        if dims(cfg)[2] < 1:
            continue
        for which in (k, k + 1, k + 2):
            p.case(("reuse", repr(cfg), which), sample=f"search, constrain against the answer, search again: {cfg}" if len(p.samples) < 2 else None)
            try:
                bad = constrain_after_search(cfg, which)  # noqa: F821
            except RejectedCallAccepted:
                break
            except Exception as e:  # noqa: BLE001
                if not report.raised_in_library(e):
                    raise
                bad = f"raised {type(e).__name__}: {e}"
            p.queries["sat" if bad else "unsat"] += 1
            if bad:
                p.violation("find_circuit:constraint-added-after-a-search", f"{bad} for {cfg}",
                            HEAD + REUSE_SRC + f"cfg={cfg!r}\ntry:\n    bad=constrain_after_search(cfg, {which})\nexcept Exception as e:\n    bad=type(e).__name__+': '+str(e)\nprint(bad); sys.exit(1 if bad else 0)\n")
                return


def run(rep, tier, seed, only=None):
    rep.functions = ["CircuitFinderSat.__init__ / get_cnf / _init_default_cnf_formula / _add_exactly_one_of / _is_dont_cares_input",
                     "fix_gate / forbid_wire / need_normalized", "find_circuit (plain and time_limit via pebble) / _solve_cnf / _get_circuit_by_model / _tt_to_gate_type",
                     "Operation / Basis / resolve_basis"]
    rep.bounds = {"inputs": "n<=3 (thorough: 60 configurations with n=4, r<=3)", "outputs": "<=2", "gate budget": "r<=4 (n=3: r<=3)", "bases": "AIG/XAIG/FULL as enum and str + 7 custom operation lists",
                  "don't-cares": "every pattern for n<=2 with one output; seeded otherwise", "constraints": "none, each kind alone, seeded combinations (<=2)"}
    rep.outside = ["the circuit_db shortcut (excluded by the property)", "r > 4, n > 3", "real PySAT solvers (stub: z3, contract sound+complete)"]
    rep.bounds['rejected calls / shared state'] = '30 (quick) / 120 (thorough) configurations with an ill-ordered fix_gate / forbid_wire call that the caller catches; stock bases compared with their pristine value after every configuration'
    rep.rule = "case = configuration (model table, budget, basis, normalisation, constraints); the candidate netlist and all value variables are quantified by z3"
    rep.explanation = "A and B unsat => the CNF's models are exactly the admissible circuits; find_circuit compared with z3 on the specification; decoder driven with several distinct models"
    rnd = random.Random(seed)
    cfgs = make_configs(tier, rnd)
    rnd.shuffle(cfgs)
    forked = [c for c in cfgs if c.get("time_limit")]
    cfgs = [c for c in cfgs if not c.get("time_limit")]
    k = 64
    rep.pmap(unit, [cfgs[i::k] for i in range(k)])
    # find_circuit(time_limit=...) forks through pebble: not possible inside a daemonic pool worker
    rep.pmap(unit, [forked], procs=1)
    plain = [c for c in cfgs if not c.get("constraints")][: 24 if tier == "quick" else 80]
    rep.pmap(timeout_unit, [plain[i::8] for i in range(8)])
    rep.bounds['one finder, several searches'] = 'search / forbid_wire or fix_gate against the first answer / search again, 3 constraint choices per configuration, compared with a fresh finder'
    again = [c for c in cfgs if dims(c)[2] >= 1][: 48 if tier == "quick" else 200]
    rep.pmap(reuse_unit, [again[i::16] for i in range(16)])
