"""C20 — traversals visit exactly the reachable gates in a valid order.

Bounded exploration (no value dimension): netlists x start sets x direction x
mode x hook sets, against independent reachability / order predicates.
"""
import itertools
import random

import z3

from vlib import circ, circgen, forkexec, symnet
from checks.common import REPLAY_PRELUDE

LEVEL = "exploration"
TECHNIQUE = "bounded exploration: systematic small netlists x start sets x directions x modes x hooks vs independent reachability/order oracles"
USES_STUBS = True

from cirbo.core.circuit import Circuit, gate as G  # noqa: E402
from cirbo.core.circuit.circuit import TraverseState  # noqa: E402
from cirbo.core.circuit.exceptions import CircuitValidationError  # noqa: E402


def nexts(c, lab, inverse):
    if inverse:
        return [u for u, g in c.gates.items() for o in g.operands if o == lab]
    return [symnet.plain(o) for o in c.gates[lab].operands]


def reach(c, starts, inverse):
    seen, st = set(), [symnet.plain(x) for x in starts]
    while st:
        l = st.pop()
        if l in seen:
            continue
        seen.add(l)
        st.extend(nexts(c, l, inverse))
    return seen


def traversal_problems(c, mode, starts, inverse, topsort_unvisited, nosy=False):
    """nosy: the enter hook *reads* the state of every neighbour of the gate it is given (the mapping is handed to
    hooks to be read; a hook counting visited users/operands does exactly that)."""
    events = []

    def on_enter(g, st):
        events.append(("enter", g.label))
        if nosy:
            for x in list(g.operands) + list(c.get_gate_users(g.label)):
                st[x]  # noqa: B018 - a read

    kw = dict(
        inverse=inverse,
        on_enter_hook=on_enter,
        on_discover_hook=lambda g, st: events.append(("discover", g.label)),
        unvisited_hook=lambda g, st: events.append(("unvisited", g.label)),
        on_traversal_end_hook=lambda st: events.append(("end", dict(st))),
        topsort_unvisited=topsort_unvisited,
    )
    if mode == "dfs":
        kw["on_exit_hook"] = lambda g, st: events.append(("exit", g.label))
    fn = c.dfs if mode == "dfs" else c.bfs
    yielded = [g.label for g in fn(starts, **kw)]
    probs = []
    eff = starts if starts is not None else (list(c.inputs) if inverse else list(c.outputs))
    expect = reach(c, eff, inverse)
    if not c.gates:
        return probs if not yielded else ["yielded gates from an empty circuit"]
    if sorted(yielded) != sorted(expect):
        probs.append(f"yielded {sorted(yielded)} but reachable set is {sorted(expect)}")
    if len(set(yielded)) != len(yielded):
        probs.append("a gate was yielded twice")
    enters = [l for k, l in events if k == "enter"]
    exits = [l for k, l in events if k == "exit"]
    if enters != yielded:
        probs.append("enter hooks do not match the yielded sequence")
    if mode == "dfs":
        if sorted(exits) != sorted(expect):
            probs.append("exit hooks did not fire exactly once per reached gate")
        pos = {}
        for i, (k, l) in enumerate(events):
            if k != "end":
                pos.setdefault((k, l), i)
        for l in expect:
            if ("enter", l) in pos and ("exit", l) in pos and not pos[("enter", l)] < pos[("exit", l)]:
                probs.append(f"exit before enter for {l}")
        epos = {l: i for i, l in enumerate(exits)}
        for l in exits:
            for ch in nexts(c, l, inverse):
                if ch in epos and not epos[ch] < epos[l]:
                    probs.append(f"exit of {l} before exit of its successor {ch} (not post-order)")
                if ch not in epos:
                    probs.append(f"{l} exited although successor {ch} never did")
    unv = [l for k, l in events if k == "unvisited"]
    if sorted(unv) != sorted(set(c.gates) - expect):
        probs.append(f"unvisited hook got {sorted(unv)}, unreached gates are {sorted(set(c.gates) - expect)}")
    if topsort_unvisited:
        upos = {l: i for i, l in enumerate(unv)}
        for l in unv:
            for o in c.gates[l].operands:
                if o in upos and not upos[o] < upos[l]:
                    probs.append("unvisited hook not in topological order")
    ends = [e for e in events if e[0] == "end"]
    if len(ends) != 1 or events[-1][0] != "end":
        probs.append("on_traversal_end_hook not called exactly once at the end")
    else:
        st = ends[0][1]
        if any(st.get(l) != TraverseState.VISITED for l in expect):
            probs.append("end hook: reached gate not VISITED")
    last_trav = max([i for i, e in enumerate(events) if e[0] in ("enter", "exit", "discover")] + [-1])
    first_unv = min([i for i, e in enumerate(events) if e[0] == "unvisited"] + [len(events)])
    if first_unv < last_trav:
        probs.append("unvisited hook fired before the traversal finished")
    return probs


def has_cycle_from_outputs(c):
    color = {}

    def visit(root):
        stack = [(root, iter(c.gates[root].operands))]
        color[root] = 1
        while stack:
            l, it = stack[-1]
            adv = False
            for o in it:
                if color.get(o) == 1:
                    return True
                if o not in color:
                    color[o] = 1
                    stack.append((o, iter(c.gates[o].operands)))
                    adv = True
                    break
            if not adv:
                color[l] = 2
                stack.pop()
        return False

    for o in c.outputs:
        if o not in color and visit(o):
            return True
    return False


def src_for(c, build_src=None):
    if build_src is not None:
        return REPLAY_PRELUDE + build_src + "\nfrom checks.c20 import traversal_problems, has_cycle_from_outputs\n"
    return (REPLAY_PRELUDE + circ.circ_src(c).replace("c.set_inputs", "c._inputs = list") + "\nfrom checks.c20 import traversal_problems, has_cycle_from_outputs\n")


def check_circuit(p, name, c, rnd, exhaustive_starts, build_src=None):
    labs = list(c.gates)
    tp = circ.topsort_problems(c)
    p.case(("topsort", circ.snapshot(c)[:3]), sample=f"{name}: {circ.describe(c)}")
    if tp:
        p.violation("traverse:top_sort", f"{tp[:2]} for {circ.describe(c)}", src_for(c, build_src) + "bad=circ.topsort_problems(c)\nprint(bad); sys.exit(1 if bad else 0)\n")
        return
    start_sets = [None]
    if exhaustive_starts:
        for k in (1, 2):
            start_sets += [list(s) for s in itertools.permutations(labs, k)][:40]
        if labs:
            start_sets.append([labs[0], labs[0]])
    else:
        for _ in range(4):
            start_sets.append([rnd.choice(labs) for _ in range(rnd.randint(1, 3))] if labs else [])
    start_sets += [[], ()]  # an empty start set reaches nothing (it is not "no start set given")
    for starts in start_sets:
        for mode in ("dfs", "bfs"):
            for inverse in (False, True):
                for tsu, nosy in ((False, False), (True, False), (True, True), (False, True)):
                    p.case(("trav", circ.snapshot(c)[:3], mode, tuple(starts) if starts is not None else None, inverse, tsu, nosy))
                    try:
                        probs = traversal_problems(c, mode, starts, inverse, tsu, nosy)
                    except Exception as e:  # noqa: BLE001
                        probs = [f"raised {type(e).__name__}: {e}"]
                    if probs:
                        p.violation(f"traverse:{mode}:{'inverse' if inverse else 'forward'}:{probs[0].split(' ')[0]}{':hook-reads-states' if nosy else ''}",
                                    f"{mode}(start={starts}, inverse={inverse}, topsort_unvisited={tsu}{', enter hook reads the states of the neighbours' if nosy else ''}) on {circ.describe(c)}: {probs[:2]}",
                                    src_for(c, build_src) + f"try:\n    bad=traversal_problems(c, {mode!r}, {starts!r}, {inverse!r}, {tsu!r}, {nosy!r})\nexcept Exception as e:\n    bad=[repr(e)]\nprint(bad); sys.exit(1 if bad else 0)\n")
                        return


def cycle_verdict(p, c, sample=None, build_src=None):
    from cirbo.core.circuit.validation import check_circuit_has_no_cycles

    expect = has_cycle_from_outputs(c)
    try:
        check_circuit_has_no_cycles(c)
        got = False
    except CircuitValidationError:
        got = True
    except BaseException as e:  # noqa: BLE001  (RecursionError on a deep circuit is an answer, and a wrong one)
        if not isinstance(e, Exception):
            raise
        got = f"raised {type(e).__name__}"
    p.case(("cycle", circ.snapshot(c)[:3] if len(c.gates) < 50 else (len(c.gates), sample)), sample=sample)
    p.count("cyclic_netlists" if expect else "acyclic_from_outputs")
    if got != expect:
        p.violation("traverse:cycle-check", f"check_circuit_has_no_cycles {'raised' if got is True else 'passed' if got is False else got} but a cycle is {'reachable' if expect else 'not reachable'} from the outputs: "
                    f"{circ.describe(c) if len(c.gates) < 50 else sample}",
                    src_for(c, build_src) + "from cirbo.core.circuit.validation import check_circuit_has_no_cycles\nfrom cirbo.core.circuit.exceptions import CircuitValidationError\n"
                    "try:\n    check_circuit_has_no_cycles(c); got=False\nexcept CircuitValidationError:\n    got=True\nexcept Exception as e:\n    got=repr(e)[:80]\n"
                    "exp=has_cycle_from_outputs(c)\nprint(got, exp); sys.exit(1 if got!=exp else 0)\n")


DEEP_SRC = """
from cirbo.core.circuit import Circuit, gate as G
from checks.c20 import deep_circuit
c = deep_circuit(%r, %d)
"""


def deep_circuit(shape, depth):
    """Deep circuits (a long inverter chain, an AND/XOR ladder, a ring): depth well beyond Python's recursion limit."""
    c = Circuit()
    c._emplace_gate("a", G.INPUT)
    c._emplace_gate("b", G.INPUT)
    c._inputs = ["a", "b"]
    prev = "a"
    for i in range(depth):
        lab = f"d{i}"
        if shape == "chain":
            c._emplace_gate(lab, G.NOT, (prev,))
        elif shape == "ladder":
            c._emplace_gate(lab, G.AND if i % 2 else G.XOR, (prev, "b"))
        else:  # ring: the first gate reads the last one
            c._emplace_gate(lab, G.OR, (prev if i else f"d{depth - 1}", "b"))
        prev = lab
    c._outputs = [prev]
    return c


def check_deep(p, rnd, depth):
    for shape in ("chain", "ladder"):
        c = deep_circuit(shape, depth)
        src = DEEP_SRC % (shape, depth)
        cycle_verdict(p, c, sample=f"{shape} of depth {depth}", build_src=src)
        tp = circ.topsort_problems(c)
        p.case(("deep-topsort", shape, depth))
        if tp:
            p.violation("traverse:top_sort:deep", f"{tp[:2]} for a {shape} of depth {depth}", src_for(c, src) + "bad=circ.topsort_problems(c)\nprint(bad[:2]); sys.exit(1 if bad else 0)\n")
        for mode in ("dfs", "bfs"):
            for starts, inverse in ((None, False), (["a"], True), ([f"d{depth // 2}"], False)):
                p.case(("deep-trav", shape, depth, mode, repr(starts), inverse))
                try:
                    probs = traversal_problems(c, mode, starts, inverse, False)
                except Exception as e:  # noqa: BLE001
                    probs = [f"raised {type(e).__name__}: {e}"]
                if probs:
                    p.violation(f"traverse:{mode}:deep", f"{mode}(start={starts}, inverse={inverse}) on a {shape} of depth {depth}: {probs[:2]}",
                                src_for(c, src) + f"try:\n    bad=traversal_problems(c, {mode!r}, {starts!r}, {inverse!r}, False)\nexcept Exception as e:\n    bad=[repr(e)]\nprint(bad[:2]); sys.exit(1 if bad else 0)\n")
    c = deep_circuit("ring", depth)
    cycle_verdict(p, c, sample=f"ring of {depth} gates", build_src=DEEP_SRC % ("ring", depth))


def replace_history(rnd, tag):
    """A reader outside the replaced region reads a replaced gate on several pins; then replace_subcircuit."""
    from checks import mutators

    c0 = circgen.random_circuit(rnd, rnd.randint(2, 3), rnd.randint(2, 5), max_arity=2, n_outputs=rnd.randint(1, 2), outputs_may_be_inputs=False)
    c = mutators.rebuild(c0)
    pre = []
    inner = [l for l in c.gates if c.gates[l].gate_type != G.INPUT and c.gates[l].operands]
    if not inner:
        return None, None
    for k in range(rnd.randint(1, 2)):
        s = rnd.choice(inner)
        ops = rnd.choice([[s, s], [s, rnd.choice(list(c.gates)), s], [s, s, s]])
        call = dict(kind="add_gate", label=f"rd{k}", type=rnd.choice(["OR", "XOR", "AND"]), operands=ops)
        pre.append(call)
        c = mutators.apply_call(c, call)
        if rnd.random() < 0.5:
            pre.append(dict(kind="mark_as_output", label=f"rd{k}"))
            c = mutators.apply_call(c, pre[-1])
    calls = list(pre)
    for step in range(6):
        call = mutators.random_call(rnd, c, step=step, kinds=["replace_subcircuit"])
        if call is None or any(l.startswith("rd") for l in call["outputs_mapping"]):
            continue
        try:
            c = mutators.apply_call(c, call)
            calls.append(call)
            break
        except Exception:  # noqa: BLE001
            return None, None
    else:
        return None, None
    src = circ.circ_src(c0) + "\nfrom checks import mutators\n" + f"for call in {calls!r}:\n    c = mutators.apply_call(c, call)\n"
    return c, src


def symbolic_unit(p, item, tier, seed):
    """Every netlist of a shape at once: operands, outputs and start lists are symbolic labels (vlib/symnet.py);
    the executor forks only where the traversal (or the oracle) looks a label up, z3 proves the paths cover all choices."""
    kind, n_in, arities, n_out, n_starts, mode, inverse, tsu = item
    net = symnet.SymNetlist(n_in, arities, n_out, cyclic=(kind == "cycle"), tag="n")
    if not net.feasible():
        return
    start_vars = [z3.Int(f"n_start_{i}") for i in range(n_starts or 0)]
    base = net.base() + [z3.And(v >= 0, v < len(net.nodes)) for v in start_vars]

    def body():
        c = net.build()
        if kind == "cycle":
            from cirbo.core.circuit.validation import check_circuit_has_no_cycles

            try:
                check_circuit_has_no_cycles(c)
                got = False
            except CircuitValidationError:
                got = True
            expect = has_cycle_from_outputs(c)
            return [] if got == expect else [f"cycle check {'raised' if got else 'passed'} but a cycle is {'reachable' if expect else 'not reachable'} from the outputs"]
        starts = None if n_starts is None else [symnet.SymLabel(v, net.nodes) for v in start_vars]
        if kind == "topsort":
            return circ.topsort_problems(c)
        return traversal_problems(c, mode, starts, inverse, tsu)

    paths, stats = forkexec.explore(body, base=base, max_paths=400000, catch=(Exception,))
    total = 1
    for j, a in enumerate(arities):
        total *= len(net.universe(j)) ** a
    total *= len(net.nodes) ** (n_out + (n_starts or 0))
    p.case(("sym", item), sample=f"{kind} {mode} inverse={inverse} unvisited-in-order={tsu}: every netlist with {n_in} inputs, gate arities {arities}, {n_out} outputs, "
           f"start list {'absent' if n_starts is None else 'of length ' + str(n_starts)} -- {total} netlists covered by {stats['paths']} paths")
    p.count("symbolic_netlists_covered", total)
    p.count("symbolic_paths", stats["paths"])
    p.count("feasibility_queries", stats["queries"])
    p.queries["unsat" if stats["covered"] else "unknown"] += 1
    p.solver_s += stats.get("solver_s", 0.0)
    if not stats["covered"]:
        p.error(f"coverage not proven for {item}")
    for path in paths:
        probs = [f"raised {type(path.exc).__name__}: {path.exc}"] if path.exc is not None else path.result
        if not probs:
            continue
        m = symnet.path_model(path, base)
        p.queries["sat" if m is not None else "unknown"] += 1
        if m is None:
            continue
        cc = net.concrete_circuit(m)
        starts = None if n_starts is None else [net.nodes[m.eval(v, model_completion=True).as_long()] for v in start_vars]
        if kind == "cycle":
            cycle_verdict(p, cc, sample=None)
        elif kind == "topsort":
            p.violation("traverse:top_sort:symbolic", f"{probs[:2]} for {circ.describe(cc)}", src_for(cc) + "bad=circ.topsort_problems(c)\nprint(bad); sys.exit(1 if bad else 0)\n")
        else:
            p.violation(f"traverse:{mode}:{'inverse' if inverse else 'forward'}:symbolic", f"{mode}(start={starts}, inverse={inverse}, topsort_unvisited={tsu}) on {circ.describe(cc)}: {probs[:2]}",
                        src_for(cc) + f"try:\n    bad=traversal_problems(c, {mode!r}, {starts!r}, {inverse!r}, {tsu!r})\nexcept Exception as e:\n    bad=[repr(e)]\nprint(bad); sys.exit(1 if bad else 0)\n")
        return


def symbolic_canary(p):
    """Vacuity guard: judged against the reachable set of the *opposite* direction some path must disagree."""
    net = symnet.SymNetlist(2, (2, 1), 1, tag="n")
    sv = z3.Int("n_start_0")
    base = net.base() + [z3.And(sv >= 0, sv < len(net.nodes))]

    def body():
        c = net.build()
        starts = [symnet.SymLabel(sv, net.nodes)]
        return sorted(g.label for g in c.dfs(starts)) != sorted(reach(c, starts, True))

    paths, stats = forkexec.explore(body, base=base, catch=(Exception,))
    p.canary(bool(stats["covered"]) and any(pp.exc is None and pp.result for pp in paths) and any(pp.exc is None and not pp.result for pp in paths))


def symbolic_items(thorough):
    items = []
    shapes = [(1, (1,)), (1, (1, 1)), (1, (2, 1)), (2, (2,)), (2, (2, 1)), (2, (1, 2)), (2, (2, 2))] + ([(1, (1, 2, 2)), (2, (2, 2, 1)), (2, (2, 1, 2)), (2, (2, 2, 2)), (3, (2, 2))] if thorough else [(2, (2, 1, 2))])
    for n_in, ar in shapes:
        big = len(ar) >= 3
        for mode in ("dfs", "bfs"):
            for inverse in (False, True):
                for n_starts in (None, 0, 1) + (() if big else (2,)):
                    for tsu in ((False, True) if not big or thorough else (bool(len(ar) % 2),)):
                        items.append(("trav", n_in, ar, 1 if big or n_starts == 2 else 2, n_starts, mode, inverse, tsu))
        items.append(("topsort", n_in, ar, 1, None, "-", False, False))
        items.append(("cycle", n_in, ar, 1 if big else 2, None, "-", False, False))
    return items


def check_cycles(p, rnd, count):
    from cirbo.core.circuit.validation import check_circuit_has_no_cycles

    for i in range(count):
        n = rnd.randint(1, 5)
        labs = [f"g{j}" for j in range(n)]
        c = Circuit()
        c._emplace_gate("x", G.INPUT)
        for l in labs:
            k = rnd.choice([1, 2])
            t = rnd.choice(circgen.types_for_arity(k))
            c._emplace_gate(l, t, tuple(rnd.choice(labs + ["x"]) for _ in range(k)))
        c._outputs = [rnd.choice(labs + ["x"]) for _ in range(rnd.randint(0, 2))]
        expect = has_cycle_from_outputs(c)
        try:
            check_circuit_has_no_cycles(c)
            got = False
        except CircuitValidationError:
            got = True
        except Exception as e:  # noqa: BLE001
            got = f"raised {type(e).__name__}"
        p.case(("cycle", circ.snapshot(c)[:3]), sample=f"cycle check on {circ.describe(c)} -> {got}" if i < 2 else None)
        p.count("cyclic_netlists" if expect else "acyclic_from_outputs")
        if got != expect:
            p.violation("traverse:cycle-check", f"check_circuit_has_no_cycles {'raised' if got else 'passed'} but a cycle is {'reachable' if expect else 'not reachable'} from the outputs: {circ.describe(c)}",
                        src_for(c) + "from cirbo.core.circuit.validation import check_circuit_has_no_cycles\nfrom cirbo.core.circuit.exceptions import CircuitValidationError\n"
                        "try:\n    check_circuit_has_no_cycles(c); got=False\nexcept CircuitValidationError:\n    got=True\n"
                        "exp=has_cycle_from_outputs(c)\nprint(got, exp); sys.exit(1 if got!=exp else 0)\n")


def unit(p, item, tier, seed):
    kind, arg = item
    rnd = random.Random(hash(repr(arg)) & 0xFFFFFF)
    if kind == "systematic":
        n_in, topos = arg
        for topo in topos:
            inputs = [f"x{i}" for i in range(n_in)]
            nodes = list(inputs)
            gates = []
            for j, ops in enumerate(topo):
                t = circgen.types_for_arity(len(ops))[j % 2]
                gates.append((f"g{j}", t, tuple(nodes[o] for o in ops)))
                nodes.append(f"g{j}")
            for outs in ([nodes[-1]], [nodes[0], nodes[-1], nodes[-1]], []):
                c = circgen.build(inputs, gates, outs)
                check_circuit(p, "systematic", c, rnd, exhaustive_starts=True)
    elif kind == "seeded":
        for i in range(12 if tier == "quick" else 40):
            c = circgen.random_circuit(rnd, rnd.randint(0, 4), rnd.randint(1, 10), max_arity=3, n_outputs=rnd.randint(0, 3), shuffle_storage=True)
            check_circuit(p, f"seeded[{arg}:{i}]", c, rnd, exhaustive_starts=False)
    elif kind == "history":
        from checks.c01 import history_circuit

        for i in range(40 if tier == "quick" else 150):
            c, src = history_circuit(rnd, f"{arg}:{i}")
            if c is not None:
                check_circuit(p, f"history[{arg}:{i}]", c, rnd, exhaustive_starts=False, build_src=src)
                if i % 2 == 0 and c.gates:
                    # a call the circuit rejects (the caller catches the error), then the traversals
                    labs = list(c.gates)
                    ops = (rnd.choice(labs), "missing_gate") if rnd.random() < 0.7 else ("missing_gate", rnd.choice(labs))
                    rej = f"\ntry:\n    c.emplace_gate('rejected_gate', __import__('cirbo.core.circuit', fromlist=['gate']).gate.AND, {ops!r})\nexcept Exception:\n    pass\n"
                    try:
                        c.emplace_gate("rejected_gate", G.AND, ops)
                    except Exception:  # noqa: BLE001
                        pass
                    check_circuit(p, f"history[{arg}:{i}]/after-a-rejected-call", c, rnd, exhaustive_starts=False, build_src=src + rej)
    elif kind == "replace":
        for i in range(60 if tier == "quick" else 200):
            c, src = replace_history(rnd, f"{arg}:{i}")
            if c is not None:
                p.count("replace_histories")
                check_circuit(p, f"replace[{arg}:{i}]", c, rnd, exhaustive_starts=False, build_src=src)
    elif kind == "deep":
        check_deep(p, rnd, arg)
    elif kind == "feature":
        for n, c in circgen.feature_circuits():
            check_circuit(p, n, c, rnd, exhaustive_starts=True)
            if c.inputs:
                # the same circuit after conversion to the bench basis (operand links are rewired in place)
                from checks import mutators

                c2 = mutators.rebuild(c)
                try:
                    c2.into_bench()
                except Exception:  # noqa: BLE001
                    continue
                check_circuit(p, n + "/into_bench", c2, rnd, exhaustive_starts=False, build_src=circ.circ_src(c) + "\nc.into_bench()\n")
            if c.outputs:
                # an output listed twice, then renamed: the default start set of a forward traversal is the output list
                from checks import mutators

                c3 = mutators.rebuild(c)
                o = c3.outputs[-1]
                hist = f"\nc.mark_as_output({o!r})\nc.rename_gate({o!r}, 'renamed_while_listed_twice')\n"
                try:
                    c3.mark_as_output(o)
                    c3.rename_gate(o, "renamed_while_listed_twice")
                except Exception:  # noqa: BLE001
                    continue
                check_circuit(p, n + "/output-listed-twice-then-renamed", c3, rnd, exhaustive_starts=False, build_src=circ.circ_src(c) + hist)
        # canary: oracle must flag a wrong reachable set
        c = circgen.build(["a", "b"], [("g", G.AND, ("a", "b"))], ["g"])
        p.canary(reach(c, ["g"], False) == {"a", "b", "g"} and reach(c, ["a"], True) == {"a", "g"})
    else:
        check_cycles(p, rnd, 150 if tier == "quick" else 600)


def _chunks(lst, n):
    for i in range(0, len(lst), n):
        yield lst[i:i + n]


def run(rep, tier, seed, only=None):
    thorough = tier == "thorough"
    rep.functions = ["Circuit.top_sort", "Circuit.dfs / bfs / _traverse_circuit (all hooks, topsort_unvisited)", "validation.check_circuit_has_no_cycles"]
    rep.bounds = {"systematic": "all netlists with <=2 inputs, <=3 gates, arities 1-2 (quick: <=2 gates exhaustive + sample of 3) x start lists of length <=2 (all ordered pairs) x 2 directions x 2 modes x 2 unvisited orders",
                  "seeded": "<=4 inputs, <=10 gates", "cyclic": "random netlists <=5 gates built through _emplace_gate",
                  "deep": "inverter chain, AND/XOR ladder and ring of depth 1500 (quick) / 1100, 1500, 5000 (thorough)",
                  "histories": "random public mutator histories; replace_subcircuit with an outside reader on several pins"}
    rep.outside = ["no value dimension: the program dimension is enumerated, not solved", "BFS level order (not stated by the property)"]
    rep.bounds['hooks / rejected calls'] = 'enter hooks that read the states of all neighbours; traversals after a rejected emplace_gate; empty start sets'
    rep.rule = "case = (netlist, mode, start list, direction, unvisited order) or (netlist for the cycle check)"
    rep.explanation = "bounded exploration against independent oracles"
    rnd = random.Random(seed)
    work = [("feature", 0), ("cycles", seed), ("cycles", seed + 1)]
    plan = [(1, 1), (1, 2), (2, 2), (1, 3), (2, 3)]
    for n_in, n_g in plan:
        topos = list(circgen.systematic_topologies(n_in, n_g, (1, 2)))
        cap = 100000 if thorough else 150
        if len(topos) > cap:
            rep.note(f"systematic n_in={n_in} n_g={n_g}: sample {cap} of {len(topos)}")
            topos = rnd.sample(topos, cap)
        for ch in _chunks(topos, 20):
            work.append(("systematic", (n_in, ch)))
    work += [("seeded", seed * 7 + s) for s in range(32 if thorough else 12)]
    work += [("history", seed * 5 + s) for s in range(24 if thorough else 8)]
    work += [("replace", seed * 3 + s) for s in range(12 if thorough else 4)]
    work += [("deep", d) for d in ((1100, 1500, 5000) if thorough else (1500,))]
    if only:
        work = [w for w in work if only in w[0]]
    rep.pmap(unit, work)
    if only is None or "symbolic" in only:
        rep.pmap(symbolic_unit, symbolic_items(thorough))
        symbolic_canary(rep)
        rep.bounds["symbolic netlists"] = ("every netlist (all operand, output and start-list choices) with <=2 inputs and gate arities up to (2,2) + (2,1,2) (quick) / up to (2,2,2) and 3 inputs (thorough), "
                                           "x dfs/bfs x direction x start list absent/empty/1/2 x unvisited order; acyclic for traversals and top_sort, arbitrary (cyclic) for the cycle check")
