"""C08, true-width Karatsuba / squarer recursion, decided *compositionally*.

The real generator runs at its real width (n = 18, 20, ... where the recursion guards fire).
Every call of the leaf multiplier and of the recursive function is recorded (inputs, outputs,
children).  For each recursive node, with the outputs of its three children as *cut points*
(free bit-vectors):
  S1  recombination: result == bd + ((big - ac - bd) << mid) + (ac << 2*mid)   (z3 bit-vectors,
      under big >= ac + bd), truncated to the node's output length;
  S2  wiring: the operands handed to the children are the halves of the node's operands
      (up to the swap of the two factors) and big's operands are hi+lo        (z3 bit-vectors);
  S3  algebra: the Karatsuba identity and big >= ac + bd over the integers      (z3 Int lemma);
  S4  leaves: out == a*b bit-exactly where the leaf is small enough for the solver; wider
      leaves are the same width-generic code already decided for all widths <= 8x8 by the
      direct checks and are reported as *assumed*.
S1-S3 for every node + S4 for every leaf  =>  the product is exact for all operand values.
"""
import z3

from vlib import symeval
from checks import gencommon

from cirbo.core.circuit import Circuit
from cirbo.synthesis.generation.arithmetics import multiplication as M, square as SQ


class Node:
    def __init__(self, kind, a, b):
        self.kind, self.a, self.b, self.out, self.children = kind, list(a), list(b), None, []


class Recorder:
    """Wraps module-level generator functions so that recursive calls are recorded as a tree."""

    def __init__(self, targets, lin=None):
        self.targets = targets  # [(module, name, kind)]
        self.stack, self.roots, self.saved = [], [], []
        self.lin = lin  # a c08_lin.LinRecorder(deep=True) active at the same time: each node remembers its slice

    def __enter__(self):
        for mod, name, kind in self.targets:
            orig = getattr(mod, name)
            self.saved.append((mod, name, orig))

            def wrapper(circuit, a, b=None, *, _orig=orig, _kind=kind, _name=name, **kw):
                a = list(a)
                bb = list(b) if b is not None else []
                node = Node(_kind + ":" + _name, a, bb)
                (self.stack[-1].children if self.stack else self.roots).append(node)
                self.stack.append(node)
                if self.lin is not None:
                    node.lin0 = (len(self.lin.records), len(self.lin.pair_gates))
                try:
                    out = _orig(circuit, a, bb, **kw) if b is not None else _orig(circuit, a, **kw)
                finally:
                    self.stack.pop()
                    if self.lin is not None:
                        node.lin1 = (len(self.lin.records), len(self.lin.pair_gates))
                node.out = list(out)
                node.big_endian = bool(kw.get("big_endian"))
                if node.big_endian:
                    # normalise the record to the little-endian view of operands and result
                    node.a, node.b, node.out = node.a[::-1], node.b[::-1], node.out[::-1]
                return out

            setattr(mod, name, wrapper)
        return self

    def __exit__(self, *exc):
        for mod, name, orig in self.saved:
            setattr(mod, name, orig)
        return False


def _bv(terms, width):
    return gencommon.bv(terms, width)


def _eval(c, cuts, labels):
    """z3 Bools of `labels` with `cuts` (label -> z3 Bool) assigned as cut points."""
    sym = {l: symeval.SymState(v, False) for l, v in cuts.items()}
    res = c.evaluate_circuit(dict(sym), outputs=[l for l in labels if l not in cuts])
    res.update(sym)
    out = []
    for l in labels:
        s = symeval.lift(res[l])
        out.append(symeval.zb(s.t))
    return out


def algebra_lemma(p, mid):
    a, b, c, d = z3.Ints("a b c d")
    K = 2 ** mid
    r, _ = p.check([a >= 0, b >= 0, c >= 0, d >= 0,
                    z3.Or(b * d + ((a + b) * (c + d) - a * c - b * d) * K + a * c * K * K != (a * K + b) * (c * K + d),
                          (a + b) * (c + d) < a * c + b * d)], label=f"karatsuba identity mid={mid}")
    return r == "unsat"


def check_karatsuba_node(p, c, node, where):
    """S1 + S2 for one recursive node.  Returns list of problems."""
    probs = []
    if len(node.children) != 3:
        return [f"{where}: expected three recursive/leaf multiplications, recorded {len(node.children)}"]
    ac, bd, big = node.children
    mid = len(bd.a)
    nout = len(node.out)
    # ---- S1: recombination over free child outputs
    cuts, vals = {}, {}
    for nm, ch in (("ac", ac), ("bd", bd), ("big", big)):
        for i, l in enumerate(ch.out):
            cuts.setdefault(l, z3.Bool(f"{nm}_{i}"))
        vals[nm] = [cuts[l] for l in ch.out]
    # zero-padding gates etc. are functions of the node's own operands: give those free values too
    for i, l in enumerate(dict.fromkeys(node.a + node.b)):
        cuts.setdefault(l, z3.Bool(f"op_{i}"))
    W = max(nout, len(big.out) + mid, len(ac.out) + 2 * mid) + 2
    P1, P2, P3 = _bv(vals["ac"], W), _bv(vals["bd"], W), _bv(vals["big"], W)
    out_terms = _eval(c, cuts, node.out)
    got = _bv(out_terms, W)
    want = P2 + ((P3 - P1 - P2) << mid) + (P1 << (2 * mid))
    mask = z3.BitVecVal((1 << nout) - 1, W)
    r, m = p.check([z3.UGE(P3, P1 + P2), (got & mask) != (want & mask)], timeout_ms=300000, label=f"S1 {where}")
    if r == "sat":
        probs.append(f"{where}: recombination of the three partial products is wrong (mid={mid})")
    elif r != "unsat":
        probs.append(f"{where}: S1 inconclusive")
    # ---- S2: wiring of the children's operands
    ops = {l: z3.Bool(f"in_{i}") for i, l in enumerate(dict.fromkeys(node.a + node.b))}
    n = max(len(node.a), len(node.b))
    Wn = n + 2
    A, B = _bv([ops[l] for l in node.a], Wn), _bv([ops[l] for l in node.b], Wn)
    ev = lambda labels: _bv(_eval(c, ops, labels), Wn)  # noqa: E731
    Xhi, Xlo, Yhi, Ylo = ev(ac.a), ev(bd.a), ev(ac.b), ev(bd.b)
    X, Y = (Xhi << mid) + Xlo, (Yhi << mid) + Ylo
    halves_ok = z3.Or(z3.And(X == A, Y == B), z3.And(X == B, Y == A))
    widths_ok = len(bd.a) == mid and len(bd.b) == mid
    sums_ok = z3.And(ev(big.a) == Xhi + Xlo, ev(big.b) == Yhi + Ylo)
    r, m = p.check([z3.Not(z3.And(halves_ok, sums_ok))], timeout_ms=300000, label=f"S2 {where}")
    if r == "sat" or not widths_ok:
        probs.append(f"{where}: the operands handed to the partial products are not the halves / half sums of the node's operands")
    elif r != "unsat":
        probs.append(f"{where}: S2 inconclusive")
    return probs


LEAF_FNS = {"last_step_sum_with_new_powers_sum": "mul", "add_mul_pow2_m1": "mul", "add_square_pow2_m1": "square"}


def leaf_by_conservation(p, c, node, lin):
    """A leaf too wide for the direct query, proved *in situ* by linear conservation (checks/c08_lin.py): the
    summation blocks recorded while this very leaf was generated, the leaf's operand labels as cut points.
    Returns 'proved' | 'wrong' | 'assumed'."""
    from checks import c08_lin

    fname = node.kind.split(":", 1)[1]
    if lin is None or fname not in LEAF_FNS or not hasattr(node, "lin0"):
        return "assumed"
    square = LEAF_FNS[fname] == "square"
    ops = list(node.a) + ([] if square else list(node.b))
    if len(set(ops)) != len(ops):
        return "assumed"  # an operand gate used at two positions (padding): the partial products cannot be told apart
    sl = c08_lin.RecordSlice(lin, node.lin0[0], node.lin1[0], node.lin0[1], node.lin1[1])
    probs, stats, wit = c08_lin.conservation_core(p, c, list(node.a), list(node.a) if square else list(node.b), list(node.out), sl, square)
    if any("inconclusive" not in x for x in probs):
        node.lin_problem = probs[0]
        return "wrong"
    return "assumed" if probs else "proved"


def check_leaf(p, c, node, where, max_leaf_bits, timeout_ms):
    """S4 for one leaf.  Returns ('ok'|'proved'|'assumed'|'wrong'|'inconclusive')."""
    n, m = len(node.a), len(node.b)
    if n + m > max_leaf_bits:
        return leaf_by_conservation(p, c, node, LIN[0])
    ops = {l: z3.Bool(f"l_{i}") for i, l in enumerate(dict.fromkeys(node.a + node.b))}
    W = len(node.out)
    a, b = _bv([ops[l] for l in node.a], 2 * W), _bv([ops[l] for l in node.b], 2 * W)
    out = _bv(_eval(c, ops, node.out), 2 * W)
    r, _ = p.check([out != a * b], timeout_ms=timeout_ms, label=f"S4 {where} {n}x{m}")
    return {"unsat": "ok", "sat": "wrong"}.get(r, "inconclusive")


def walk(p, c, node, where, stats, max_leaf_bits, leaf_timeout_ms):
    probs = []
    if node.kind.startswith("rec"):
        probs += check_karatsuba_node(p, c, node, where)
        stats["nodes"] += 1
        for i, ch in enumerate(node.children):
            probs += walk(p, c, ch, f"{where}/{['ac', 'bd', 'big'][i] if i < 3 else i}", stats, max_leaf_bits, leaf_timeout_ms)
    else:
        verdict = check_leaf(p, c, node, where, max_leaf_bits, leaf_timeout_ms)
        stats["leaves_" + verdict] = stats.get("leaves_" + verdict, 0) + 1
        stats["max_leaf"] = max(stats.get("max_leaf", 0), max(len(node.a), len(node.b)))
        if verdict == "wrong":
            probs.append(f"{where}: leaf multiplier {len(node.a)}x{len(node.b)} is wrong")
    return probs


LIN = [None]  # the deep summation recording of the run being checked


MODES = {
    "KARATSUBA": ("add_mul_karatsuba_with_efficient_sum", "last_step_sum_with_new_powers_sum"),
    "KARATSUBA_PLAIN": ("add_mul_karatsuba", "add_mul_pow2_m1"),
}


def karatsuba_true_width(p, mode, n, m, max_leaf_bits=16, leaf_timeout_ms=120000):
    """Returns (problems, stats) for the real generator at true width n x m (little-endian call)."""
    rec_name, leaf_name = MODES[mode]
    c = Circuit.bare_circuit(n + m)
    a, b = list(c.inputs[:n]), list(c.inputs[n:])
    from checks import c08_lin

    with c08_lin.LinRecorder(deep=True) as lin, Recorder([(M, rec_name, "rec"), (M, leaf_name, "leaf")], lin=lin) as R:
        out = getattr(M, rec_name)(c, a, b)
    LIN[0] = lin
    root = R.roots[0]
    stats = {"nodes": 0, "gates": len(c.gates)}
    probs = []
    if not root.children or not root.kind.startswith("rec"):
        return [f"{mode} {n}x{m}: the recursion branch was not taken"], stats
    expected = n + m - 1 if (n == 1 or m == 1) else n + m
    if len(out) != expected:
        probs.append(f"result has {len(out)} bits, documented {expected}")
    probs += walk(p, c, root, f"{mode}{n}x{m}", stats, max_leaf_bits, leaf_timeout_ms)
    mids = set()

    def collect(node):
        if node.kind.startswith("rec") and len(node.children) == 3:
            mids.add(len(node.children[1].a))
            for ch in node.children:
                collect(ch)

    collect(root)
    for mid in sorted(mids):
        if not algebra_lemma(p, mid):
            probs.append(f"algebra lemma failed for mid={mid}")
    stats["mids"] = sorted(mids)
    return probs, stats


def square_true_width(p, n, max_leaf_bits=16, leaf_timeout_ms=120000, big_endian=False):
    """add_square at a width where it splits: result == aa + (ab << (mid+1)) + (bb << 2*mid)."""
    c = Circuit.bare_circuit(n)
    x = list(c.inputs)
    from checks import c08_lin

    with c08_lin.LinRecorder(deep=True) as lin, Recorder([(SQ, "add_square", "rec"), (SQ, "add_square_pow2_m1", "leafsq"), (SQ, "add_mul_karatsuba", "mul"),
                                                          (M, "add_mul_karatsuba", "rec"), (M, "add_mul_pow2_m1", "leaf")], lin=lin) as R:
        out = SQ.add_square(c, x[::-1] if big_endian else x, big_endian=big_endian)
    LIN[0] = lin
    root = R.roots[0]  # recorded in the little-endian view (see Recorder)
    stats = {"gates": len(c.gates)}
    if len(root.children) != 3:
        return [f"square {n}: the split branch was not taken"], stats
    aa, bb, ab = root.children
    mid = len(aa.a)
    probs = []
    if len(out) != 2 * n:
        probs.append(f"result has {len(out)} bits, documented {2 * n}")
    cuts, vals = {}, {}
    for nm, ch in (("aa", aa), ("bb", bb), ("ab", ab)):
        for i, l in enumerate(ch.out):
            cuts.setdefault(l, z3.Bool(f"{nm}_{i}"))
        vals[nm] = [cuts[l] for l in ch.out]
    for i, l in enumerate(x):
        cuts.setdefault(l, z3.Bool(f"x_{i}"))
    W = 2 * n + 4
    AA, BB, AB = _bv(vals["aa"], W), _bv(vals["bb"], W), _bv(vals["ab"], W)
    got = _bv(_eval(c, cuts, root.out), W)
    want = AA + (AB << (mid + 1)) + (BB << (2 * mid))
    mask = z3.BitVecVal((1 << len(out)) - 1, W)
    r, _ = p.check([(got & mask) != (want & mask)], timeout_ms=300000, label=f"S1 square {n}")
    if r == "sat":
        probs.append(f"square {n}: recombination aa + 2^(mid+1)*ab + 2^(2mid)*bb is wrong")
    elif r != "unsat":
        probs.append(f"square {n}: S1 inconclusive")
    # wiring: children get the low / high halves
    ok = aa.a == x[:mid] and bb.a == x[mid:] and ab.a == x[:mid] and ab.b == x[mid:]
    if not ok:
        probs.append(f"square {n}: children do not receive the low/high halves of the operand")
    lo, hi = z3.Ints("lo hi")
    K = 2 ** mid
    r, _ = p.check([lo >= 0, hi >= 0, lo * lo + (lo * hi) * (2 * K) + hi * hi * K * K != (lo + hi * K) * (lo + hi * K)], label="square identity")
    if r != "unsat":
        probs.append("square identity lemma failed")
    stats["mid"] = mid
    stats["children"] = [f"{ch.kind} {len(ch.a)}x{len(ch.b) or len(ch.a)}" for ch in root.children]
    # the three children themselves: half squares (2^k-1 squarer leaves, proved in situ by linear conservation)
    # and the Karatsuba product of the halves (recursion nodes + leaves as in karatsuba_true_width)
    verdicts = []
    for nm, ch in (("aa", aa), ("bb", bb)):
        if len(ch.children) == 1 and ch.children[0].kind.startswith("leafsq") and ch.children[0].out == ch.out and ch.children[0].a == ch.a:
            v = leaf_by_conservation(p, c, ch.children[0], lin)
        else:
            v = "assumed"
        verdicts.append(f"{nm}:{v}")
        if v == "wrong":
            probs.append(f"square {n}: the half square {nm} ({len(ch.a)} bits) is wrong: {getattr(ch.children[0], 'lin_problem', '')}")
    kst = {"nodes": 0}
    if len(ab.children) == 3:
        ab.kind = "rec:add_mul_karatsuba"
        kprobs = walk(p, c, ab, f"square{n}/ab", kst, max_leaf_bits, leaf_timeout_ms)
        mids = set()

        def collect(node):
            if node.kind.startswith("rec") and len(node.children) == 3:
                mids.add(len(node.children[1].a))
                for q in node.children:
                    collect(q)

        collect(ab)
        for md in sorted(mids):
            if not algebra_lemma(p, md):
                kprobs.append(f"algebra lemma failed for mid={md}")
        probs += kprobs
        verdicts.append("ab:" + ("wrong" if [x for x in kprobs if "inconclusive" not in x] else f"karatsuba nodes={kst['nodes']} " + " ".join(f"{k}={v}" for k, v in kst.items() if k.startswith("leaves_"))))
    elif len(ab.children) == 1 and ab.children[0].kind.startswith("leaf") and ab.children[0].out == ab.out:
        v = leaf_by_conservation(p, c, ab.children[0], lin)
        verdicts.append(f"ab:{v}")
        if v == "wrong":
            probs.append(f"square {n}: the product of the halves is wrong")
    else:
        verdicts.append("ab:assumed")
    stats["children_verdicts"] = verdicts
    return probs, stats
