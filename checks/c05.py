"""C05 — the circuit-to-CNF reduction is exact.

Clause lists produced by the real `tseytin_transformation` become z3 formulas
(E-C).  For every circuit x output selection, z3 decides over all inputs and all
CNF variables:
  A  CNF ∧ ¬(all selected outputs true)                       unsat
  B  (all selected outputs true) ∧ ¬CNF[v_g := value of g]     unsat
  C  CNF ∧ v_g ≠ value of g   for every encoded gate            unsat
with CNF variable i+1 identified with input i.  The gate<->variable mapping used
as witness in B/C is *derived semantically* (not assumed from the allocator).
Then `is_circuit_satisfiable` (through the SAT-solver stub) is compared with z3's
verdict and its model is checked against the clauses and native evaluation.
"""
import itertools
import random

import z3

from vlib import circ, circgen, refsem, symeval
from checks.common import REPLAY_PRELUDE, ref_concrete

LEVEL = "other"
TECHNIQUE = "bounded SMT: CNF from the real Tseytin code bridged to z3; validity of soundness/completeness/uniqueness queries over all inputs and CNF variables"
USES_STUBS = True

from cirbo.core.circuit import gate as G  # noqa: E402


def lit_term(l, V):
    return V[l] if l > 0 else z3.Not(V[-l])


def clause_term(cl, V):
    if not cl:
        return z3.BoolVal(False)
    return z3.Or(*[lit_term(l, V) for l in cl])


def reachable(c, outs):
    seen, stack = set(), list(outs)
    while stack:
        l = stack.pop()
        if l in seen:
            continue
        seen.add(l)
        stack.extend(c.gates[l].operands)
    return seen


def derive_mapping(cnf, n, nv, ER, cone, p):
    """gate -> var and var -> gate with  CNF entails var == value(gate)  ("its satisfying
    extension gives every encoded gate its evaluated value").  Candidates are filtered
    by a few models of the CNF, then confirmed by an entailment query each."""
    V = {i: z3.Bool(f"v{i}") for i in range(1, nv + 1)}
    s = z3.Solver()
    for cl in cnf:
        s.add(clause_term(cl, V))
    models = []
    s.push()
    for _ in range(6 if nv < 100 else 40):
        if str(s.check()) != "sat":
            break
        m = s.model()
        models.append(m)
        s.add(z3.Or(*[V[i] != m.eval(V[i], model_completion=True) for i in range(1, nv + 1)]))
    s.pop()
    if not models:
        return None, None, V  # CNF unsatisfiable: nothing to extend
    sig_v = {v: tuple(symeval.model_bool(m, V[v]) for m in models) for v in range(1, nv + 1)}
    sig_g = {g: tuple(symeval.model_bool(m, ER[g]) for m in models) for g in cone}

    witnesses = {}

    def entails(v, g):
        s.push()
        s.add(V[v] != ER[g])
        r = str(s.check())
        if r == "sat":
            mm = s.model()
            witnesses.setdefault(g, []).append({i: symeval.model_bool(mm, V[i]) for i in range(1, nv + 1)})
        s.pop()
        p.queries["unsat" if r == "unsat" else "sat" if r == "sat" else "unknown"] += 1
        return r == "unsat"

    gate_var, var_gate = {}, {}
    for g in cone:
        for v in list(range(n + 1, nv + 1)) + list(range(1, n + 1)):
            if sig_v[v] == sig_g[g] and entails(v, g):
                gate_var[g] = v
                var_gate.setdefault(v, g)
                break
    for v in range(n + 1, nv + 1):
        if v in var_gate:
            continue
        for g in cone:
            if sig_v[v] == sig_g[g] and entails(v, g):
                var_gate[v] = g
                break
    base_models = [{i: symeval.model_bool(m, V[i]) for i in range(1, nv + 1)} for m in models]
    LAST_WITNESSES.clear()
    LAST_WITNESSES.update({g: base_models + w for g, w in witnesses.items() if g not in gate_var})
    for g in cone:
        if g not in gate_var:
            LAST_WITNESSES.setdefault(g, base_models)
    return gate_var, var_gate, V


LAST_WITNESSES = {}


def short(c):
    d = circ.describe(c)
    return d if len(d) < 600 else f"{d[:300]} ... {d[-200:]} ({len(c.gates)} gates)"


def check_encoding(p, name, c, sel):
    from cirbo.sat.cnf import tseytin_transformation

    n = len(c.inputs)
    cnf = tseytin_transformation(c, outputs=None if sel is None else list(sel)).get_raw()
    sel_idx = list(range(len(c.outputs))) if sel is None else list(sel)
    nv = max([abs(l) for cl in cnf for l in cl] + [n])
    X = {lab: z3.Bool(f"v{i + 1}") for i, lab in enumerate(c.inputs)}
    nl = circ.netlist_of(c)
    ER = refsem.denote(nl, X)
    out_labels = [c.outputs[i] for i in sel_idx]
    cone = [g for g in c.gates if g in reachable(c, out_labels) and c.gates[g].gate_type != G.INPUT]
    V = {i: z3.Bool(f"v{i}") for i in range(1, nv + 1)}
    cnf_term = z3.And(*[clause_term(cl, V) for cl in cnf]) if cnf else z3.BoolVal(True)
    outs_true = z3.And(*[ER[o] for o in out_labels]) if out_labels else z3.BoolVal(True)
    p.case(("tseytin", circ.snapshot(c)[:3], tuple(sel_idx) if sel is not None else None),
           sample=f"{name} outputs={sel}: {short(c)} -> {len(cnf)} clauses, {nv} vars")
    src_head = REPLAY_PRELUDE + circ.circ_src(c) + "\nfrom cirbo.sat.cnf import tseytin_transformation\n" \
        f"sel={None if sel is None else list(sel)!r}\ncnf=tseytin_transformation(c, outputs=sel).get_raw()\n" \
        "sel_idx=list(range(len(c.outputs))) if sel is None else sel\n"

    def x_of(m):
        return {lab: symeval.model_bool(m, X[lab]) for lab in c.inputs}

    # A: soundness
    r, m = p.check([cnf_term, z3.Not(outs_true)], label=f"A {name}")
    if r == "sat":
        full = {i: symeval.model_bool(m, V[i]) for i in V}
        p.violation(
            f"tseytin:A-unsound:{_types_key(c, cone)}",
            f"CNF has a model with inputs {x_of(m)} although not all selected outputs are true: {short(c)} sel={sel}",
            src_head + f"model={full!r}\n"
            "sat_all=all(any((model[abs(l)] if l>0 else not model[abs(l)]) for l in cl) for cl in cnf)\n"
            "assign={lab: model[i+1] for i,lab in enumerate(c.inputs)}\n"
            "exp=ref_concrete(circ.netlist_of(c), assign)\n"
            "outs=[exp[c.outputs[i]] for i in sel_idx]\n"
            "print('model satisfies all clauses:', sat_all, 'outputs:', outs)\n"
            "sys.exit(1 if sat_all and not all(outs) else 0)\n",
        )
        return
    # B: completeness.  Witness = evaluated gate values when every auxiliary variable could be
    # matched to a gate; otherwise the auxiliary variables are quantified.
    gate_var, var_gate, _ = derive_mapping(cnf, n, nv, ER, cone, p)
    aux = list(range(n + 1, nv + 1))
    if var_gate is not None and all(v in var_gate for v in aux):
        sub = [(V[v], ER[var_gate[v]]) for v in aux]
        g_term = z3.substitute(cnf_term, *sub) if sub else cnf_term
        r, m = p.check([outs_true, z3.Not(g_term)], label=f"B {name}")
    else:
        p.count("B_quantified")
        r, m = p.check([outs_true, z3.ForAll([V[v] for v in aux], z3.Not(cnf_term))] if aux
                       else [outs_true, z3.Not(cnf_term)], label=f"B(q) {name}")
    if r == "sat":
        xa = x_of(m)
        p.violation(
            f"tseytin:B-incomplete:{_types_key(c, cone)}",
            f"all selected outputs are true on {xa} but CNF ∧ inputs is unsatisfiable: {short(c)} sel={sel}",
            src_head + f"assign={xa!r}\n"
            "exp=ref_concrete(circ.netlist_of(c), assign)\n"
            "outs=[exp[c.outputs[i]] for i in sel_idx]\n"
            "from pysat.solvers import Solver\n"
            "s=Solver(bootstrap_with=cnf)\n"
            "ok=s.solve(assumptions=[(i+1) if assign[lab] else -(i+1) for i,lab in enumerate(c.inputs)])\n"
            "print('outputs', outs, 'cnf∧x satisfiable:', ok)\n"
            "sys.exit(1 if all(outs) and not ok else 0)\n",
        )
        return
    # C: every gate in the cone of the selected outputs has a variable that every model sets to
    # the gate's evaluated value.
    if gate_var is not None:
        unencoded = [g for g in cone if g not in gate_var]
        if unencoded:
            g = unencoded[0]
            p.violation(
                f"tseytin:C-gate-value:{_types_key(c, cone)}",
                f"no CNF variable is forced to the evaluated value of gate {g}: {short(c)} sel={sel}",
                src_head + f"g={g!r}\nmodels={LAST_WITNESSES.get(g, [])!r}\n"
                "# models of the CNF found by the solver; together they show, for every variable, a model in which it differs from g's value\n"
                "nv=max([abs(l) for cl in cnf for l in cl]+[len(c.inputs)])\n"
                "ok=[m for m in models if all(any((m[abs(l)] if l>0 else not m[abs(l)]) for l in cl) for cl in cnf)]\n"
                "differs=set()\n"
                "for m in ok:\n"
                "    exp=ref_concrete(circ.netlist_of(c), {lab: m[i+1] for i,lab in enumerate(c.inputs)})\n"
                "    differs |= {v for v in range(1,nv+1) if m.get(v, False)!=exp[g]}\n"
                "print('models', len(ok), 'of', len(models), 'satisfy the CNF; variables that differ from the gate value in some model:', len(differs), 'of', nv)\n"
                "sys.exit(1 if ok and len(differs)==nv else 0)\n",
            )
            return
        mapping = {v: g for g, v in gate_var.items()}
    else:
        mapping = {}
    # canary (vacuity guard, template circuits): dropping some non-unit clause must be noticed
    big = [i for i, cl in enumerate(cnf) if len(cl) >= 2]
    if big and mapping and name.startswith("template") and name.endswith(":XOR"):
        fired = False
        for k in big:
            weakened = z3.And(*[clause_term(cl, V) for i, cl in enumerate(cnf) if i != k])
            r, _ = p.check([weakened, z3.Or(z3.Not(outs_true), *[V[v] != ER[g] for v, g in mapping.items()])], label="canary")
            if r == "sat":
                fired = True
                break
        p.canary(fired)


def _types_key(c, cone):
    ts = sorted({f"{c.gates[g].gate_type.name}/{len(c.gates[g].operands)}" for g in cone})
    return "+".join(ts)[:70]


def check_solver_path(p, name, c):
    """is_circuit_satisfiable through the stub vs z3 on the reference semantics."""
    from cirbo.sat import is_circuit_satisfiable
    from cirbo.sat.cnf import Cnf

    X = {lab: z3.Bool(f"x{i}") for i, lab in enumerate(c.inputs)}
    nl = circ.netlist_of(c)
    ER = refsem.denote(nl, X)
    res = is_circuit_satisfiable(c)
    p.case(("is_circuit_satisfiable", circ.snapshot(c)[:3]), sample=f"is_circuit_satisfiable {name}: {res.answer}")
    r, m = p.check([z3.And(*[ER[o] for o in c.outputs])] if c.outputs else [z3.BoolVal(True)], label=f"sat {name}")
    expected = r == "sat"
    bad = None
    if res.answer != expected:
        bad = f"is_circuit_satisfiable answered {res.answer}, an assignment making all outputs true {'exists' if expected else 'does not exist'}"
    elif res.answer:
        model = {abs(l): l > 0 for l in res.model}
        cnf = Cnf.from_circuit(c).get_raw()
        if not all(any((model.get(abs(l), False) if l > 0 else not model.get(abs(l), False)) for l in cl) for cl in cnf):
            bad = "returned model does not satisfy the CNF"
        else:
            xs = [model.get(i + 1, False) for i in range(len(c.inputs))]
            if not all(c.evaluate(xs)):
                bad = f"returned model projects to inputs {xs} that do not make all outputs true"
    elif res.model is not None:
        bad = "model returned with answer False"
    if bad:
        p.violation(
            f"is_circuit_satisfiable:{_types_key(c, [g for g in c.gates if c.gates[g].gate_type != G.INPUT])}",
            f"{bad}: {circ.describe(c)}",
            REPLAY_PRELUDE + circ.circ_src(c) + "\nfrom cirbo.sat import is_circuit_satisfiable\nimport itertools\n"
            "res=is_circuit_satisfiable(c)\n"
            "truth=any(all(ref_concrete(circ.netlist_of(c), dict(zip(c.inputs,x)))[o] for o in c.outputs) for x in itertools.product((False,True),repeat=len(c.inputs)))\n"
            "bad = res.answer!=truth\n"
            "if res.answer and not bad:\n"
            "    m={abs(l): l>0 for l in res.model}\n"
            "    xs=[m.get(i+1,False) for i in range(len(c.inputs))]\n"
            "    bad = not all(ref_concrete(circ.netlist_of(c), dict(zip(c.inputs,xs)))[o] for o in c.outputs)\n"
            "print(res.answer, truth, bad)\nsys.exit(1 if bad else 0)\n",
        )


HISTORY_SRC = """
def cnf_history_problems(c):
    # the CNF handed out for a circuit is the caller's to extend (e.g. blocking clauses while enumerating models);
    # a later transformation of the same (or an identical) circuit must be the plain Tseytin transformation again
    from cirbo.sat.cnf import Cnf, tseytin_transformation
    from cirbo.sat import is_circuit_satisfiable
    from vlib import circ
    bad = []
    fresh = [list(cl) for cl in tseytin_transformation(c).get_raw()]
    first = Cnf.from_circuit(c)
    before = is_circuit_satisfiable(c).answer
    nv = max([abs(l) for cl in first.get_raw() for l in cl] + [1])
    first.add_clause([nv])
    first.add_clause([-nv])
    for l in range(1, min(nv, 3) + 1):
        first.add_clause([-l])
    again = [list(cl) for cl in Cnf.from_circuit(c).get_raw()]
    if again != fresh:
        bad.append('Cnf.from_circuit after the caller extended an earlier result differs from the Tseytin transformation')
    if [list(cl) for cl in tseytin_transformation(c).get_raw()] != fresh:
        bad.append('tseytin_transformation is not repeatable')
    if is_circuit_satisfiable(c).answer != before:
        bad.append('is_circuit_satisfiable changed its answer after an earlier CNF of the circuit was extended')
    return bad
"""
exec(HISTORY_SRC)  # noqa: S102


def check_cnf_history(p, name, c):
    p.case(("cnf-history", circ.snapshot(c)[:3]))
    try:
        bad = cnf_history_problems(c)  # noqa: F821
    except Exception as e:  # noqa: BLE001
        bad = [f"raised {type(e).__name__}: {e}"]
    if bad:
        p.violation("tseytin:history", f"{bad[:2]} for {short(c)}", REPLAY_PRELUDE + circ.circ_src(c) + HISTORY_SRC + "\nbad=cnf_history_problems(c)\nprint(bad); sys.exit(1 if bad else 0)\n")


def selections(c, rnd, thorough):
    m = len(c.outputs)
    sels = [None]
    if m:
        sels.append([0])
        sels.append([m - 1, m - 1])
    if m >= 2:
        sels.append(list(range(m))[::-1])
        sels.append([rnd.randrange(m) for _ in range(rnd.randint(1, 3))])
    sels.append([])
    return sels if thorough else sels[:4]


def unit(p, item, tier, seed):
    kind, arg = item
    thorough = tier == "thorough"
    rnd = random.Random(seed)
    if kind == "template":
        tname, k = arg
        t = getattr(G, tname)
        ins = [f"x{i}" for i in range(k)] + ["e"]
        ops = tuple(ins[:k])
        for wrap in (G.XOR, G.NXOR, G.AND):
            c = circgen.build(ins, [("g", t, ops), ("o", wrap, ("g", "e"))], ["o"])
            check_encoding(p, f"template:{tname}/{k}:{wrap.name}", c, None)
        c = circgen.build(ins, [("g", t, ops)], ["g", "e"])
        check_encoding(p, f"template:{tname}/{k}:direct", c, [0])
        if k >= 2:  # duplicated operands
            c = circgen.build(ins, [("g", t, (ins[0],) * k), ("o", G.XOR, ("g", "e"))], ["o"])
            check_encoding(p, f"template:{tname}/{k}:dup", c, None)
    elif kind == "feature":
        for name, c in circgen.feature_circuits():
            for sel in selections(c, rnd, thorough):
                check_encoding(p, "feature:" + name, c, sel)
            check_solver_path(p, name, c)
            check_cnf_history(p, name, c)
    elif kind == "large":
        # circuits of a size at which a traversal may switch strategy (recursion depth, explicit stacks):
        # operands come mostly from recent gates, so the output cone is deep and reconvergent
        s, n_in, n_g = arg
        rnd = random.Random(s)
        ins = [f"x{i}" for i in range(n_in)]
        nodes, gates = list(ins), []
        for j in range(n_g):
            k = rnd.choice([1, 2, 2, 2, 3])
            t = rnd.choice(circgen.types_for_arity(k))
            recent = nodes[-6:]
            gates.append((f"g{j}", t, tuple(rnd.choice(recent if rnd.random() < 0.85 else nodes) for _ in range(k))))
            nodes.append(f"g{j}")
        c = circgen.build(ins, gates, [nodes[-1], nodes[-2], rnd.choice(nodes)], None if s % 2 else rnd.sample(nodes, len(nodes)))
        for sel in ([0], None):
            check_encoding(p, f"large[{s}:{n_in}x{n_g}]", c, sel)
        check_solver_path(p, f"large[{s}]", c)
    else:
        s, count, maxg, maxi = arg
        rnd = random.Random(s)
        for i in range(count):
            c = circgen.random_circuit(rnd, rnd.randint(0 if i % 9 == 0 else 1, maxi), rnd.randint(1, maxg),
                                       max_arity=rnd.choice([2, 3, 5]), shuffle_storage=bool(i % 2))
            for sel in selections(c, rnd, thorough)[: (6 if thorough else 2)]:
                check_encoding(p, f"seeded[{s}:{i}]", c, sel)
            if i % 2 == 0:
                check_solver_path(p, f"seeded[{s}:{i}]", c)
                check_cnf_history(p, f"seeded[{s}:{i}]", c)


def run(rep, tier, seed, only=None):
    thorough = tier == "thorough"
    rep.functions = ["cirbo.sat.cnf.tseytin.tseytin_transformation and every _process_* template", "cirbo.sat.cnf.Cnf.from_circuit",
                     "cirbo.sat.sat.is_satisfiable / is_circuit_satisfiable (solver = stub)"]
    rep.bounds = {"template arity": "2..6, 8, 11 (+13, 16, 21 for AND/OR/NAND/NOR) quick; + 9, 10, 12, 13 (32) thorough", "circuits": "feature family + seeded <= 5 inputs / <= 10 gates (quick), <= 6 / <= 14 (thorough); deep reconvergent circuits of 405 and 520 gates (quick), 401..1500 gates (thorough)",
                  "output selections": "None, [0], repeated, reversed, random, []"}
    rep.outside = ["arities other than the listed ones", "the real PySAT solvers (environment stub is used; contract: sound and complete)"]
    rep.bounds['histories'] = 'Cnf.from_circuit - caller adds clauses - Cnf.from_circuit / is_circuit_satisfiable again (feature + every second seeded circuit)'
    rep.rule = "case = (circuit, output selection); z3 decides A/B/C over all inputs and all CNF variables; mapping gate<->variable derived by entailment"
    rep.explanation = ("CNF from the real code is a z3 formula; A (soundness), B (completeness with the evaluated values as witness) and "
                       "C (uniqueness of the extension) are unsat for every case; input i is variable i+1 by construction of the queries.")
    sub = lambda n: only is None or only in n  # noqa: E731
    items = []
    if sub("template"):
        for t in circgen.ALL_TYPES:
            ar = [1] if t in circgen.UNARY else [2] if t in circgen.BINARY_ONLY else (list(range(2, 7)) + ([8, 11] if t.name in ('XOR', 'NXOR') else [8, 11, 13, 16, 21]) + (([9, 10, 12, 13] if t.name in ('XOR', 'NXOR') else [9, 10, 12, 32]) if thorough else [])) if t in circgen.NARY else [0, 1, 2, 3]  # constants may carry (ignored) operands: the database decoder and the arithmetic gate table produce them
            items += [("template", (t.name, k)) for k in ar]
    if sub("feature"):
        items.append(("feature", None))
    if sub("seeded"):
        items += [("seeded", (seed * 31 + s, 30 if thorough else 8, 14 if thorough else 10, 6 if thorough else 5))
                  for s in range(96 if thorough else 48)]
    if sub("large"):
        items += [("large", (seed * 7 + i, 6, g)) for i, g in enumerate((405, 520) if not thorough else (401, 405, 450, 520, 700, 1100, 1500))]
    rep.pmap(unit, items)
