"""C07 — summation generators compute exact sums within the promised basis and size."""
import itertools
import random

import z3

from vlib import circ, symeval
from checks import gencommon
from checks.common import REPLAY_PRELUDE

LEVEL = "other"
TECHNIQUE = "bounded SMT: real generator output evaluated by the real evaluator on z3 terms (operands as cut points); bit-vector identity sum(out*2^level)=sum(in*2^w) decided by z3"
USES_STUBS = True

from cirbo.synthesis.generation import GenerationBasis  # noqa: E402
from cirbo.synthesis.generation import arithmetics as A  # noqa: E402
from cirbo.synthesis.generation.arithmetics import summation as S  # noqa: E402


def basis_obj(spelling):
    return {"enum:XAIG": GenerationBasis.XAIG, "enum:AIG": GenerationBasis.AIG}.get(spelling, spelling)


def is_aig(spelling):
    return spelling.split(":")[-1].upper() == "AIG"


def invoke(case, c, operands):
    """Run the real generator described by `case` on circuit c.  Returns
    (out_pairs [(level,label)], in_pairs [(weight,label)], flags)."""
    gencommon.elsewhere_first(case, _invoke)
    guard = gencommon.OperandLists(operands, alias=case.get("alias", False))
    try:
        return _invoke(case, c, guard.lists)
    finally:
        guard.check()


def used_before(case, host):
    """History: the same gadget was already requested in this circuit and the user removed one of its
    (unused) result gates afterwards; the host is re-snapshotted so that the measured call is the second one."""
    try:
        res = _invoke(case, host.c, [list(o) for o in host.operands])
    except Exception:  # noqa: BLE001
        return  # the measured call will raise as well and be reported there
    used = {x for ops in host.operands for x in ops}
    victims = [l for _, l in res[0] if l not in used and l in host.c.gates and not host.c.get_gate_users(l) and l not in host.c.outputs]
    idle = [l for l in host.before_net if l not in used and l not in host.c.inputs and not host.c.get_gate_users(l) and l not in host.c.outputs]
    if idle or victims:
        host.c.remove_gate((idle or victims)[0])  # an older gate, not the one created last
    host.refresh()


def _invoke(case, c, operands):
    fn = case["fn"]
    b = basis_obj(case.get("basis", "enum:XAIG"))
    be = case.get("big_endian", False)
    flags = {}
    it = (lambda x: iter(list(x))) if gencommon.one_shot(case) else (lambda x: x)  # noqa: E731

    def levels(labels):
        labels = list(labels)
        n = len(labels)
        return [((n - 1 - i) if be else i, l) for i, l in enumerate(labels)]

    if fn in ("add_sum_n_bits", "add_sum_n_bits_easy"):
        ops = operands[0]
        if fn == "add_sum_n_bits":
            res = A.add_sum_n_bits(c, it(ops), basis=b, big_endian=be)
        else:
            res = A.add_sum_n_bits_easy(c, it(ops), big_endian=be)
        return levels(res), [(0, l) for l in ops], flags
    if fn in ("add_sum2", "add_sum3"):
        ops = operands[0]
        res = getattr(A, fn)(c, it(ops))
        return levels(res), [(0, l) for l in ops], flags
    if fn in ("add_sum_n_weighted_bits", "add_sum_n_weighted_bits_naive"):
        ops = operands[0]
        pw = list(zip(case["weights"], ops))
        res = getattr(A, fn)(c, it(pw) if fn == "add_sum_n_weighted_bits_naive" else pw, basis=b)  # only the naive variant is declared Iterable (the other documents a list)
        return [(lev, lab) for lev, lab in res], pw, flags
    if fn == "add_sum_two_numbers":
        a, bb = operands
        res = A.add_sum_two_numbers(c, it(a), it(bb), big_endian=be)
        na, nb = len(a), len(bb)
        ins = [((na - 1 - i) if be else i, l) for i, l in enumerate(a)] + [((nb - 1 - i) if be else i, l) for i, l in enumerate(bb)]
        return levels(res), ins, flags
    if fn == "add_sum_two_numbers_with_shift":
        a, bb = operands
        sh = case["shift"]
        res = A.add_sum_two_numbers_with_shift(c, sh, it(a), it(bb), big_endian=be)
        na, nb = len(a), len(bb)
        ins = [((na - 1 - i) if be else i, l) for i, l in enumerate(a)] + [(((nb - 1 - i) if be else i) + sh, l) for i, l in enumerate(bb)]
        return levels(res), ins, flags
    if fn == "add_sum_pow2_m1":
        ops = operands[0]
        res = A.add_sum_pow2_m1(c, it(ops), big_endian=be, basis=b)
        out = []
        for k, labs in enumerate(res):
            for l in labs:
                out.append((k, l))
        flags["levels_may_repeat"] = True
        return out, [(0, l) for l in ops], flags
    raise ValueError(fn)


def generate_form(case):
    """Called twice; the first result is edited in place by its owner, the second must be unaffected."""
    first = _generate_form_once(case)[0]
    if first.outputs:
        first.set_outputs(list(first.outputs)[:1])
    return _generate_form_once(case)


def _generate_form_once(case):
    """The generate_* wrappers: returns (circuit, out_pairs, in_pairs)."""
    fn = case["fn"]
    b = basis_obj(case.get("basis", "enum:XAIG"))
    be = case.get("big_endian", False)
    if fn == "generate_sum_n_bits":
        c = A.generate_sum_n_bits(case["n"], basis=b, big_endian=be)
        n_out = len(c.outputs)
        # inputs are plain bits (weight 0); outputs little-endian unless big_endian
        return c, [((n_out - 1 - i) if be else i, l) for i, l in enumerate(c.outputs)], [(0, l) for l in c.inputs]
    gen = A.generate_sum_weighted_bits_efficient if fn == "generate_sum_weighted_bits_efficient" else A.generate_sum_weighted_bits_naive
    c = gen(list(case["weights"]), basis=b)
    return c, None, list(zip(case["weights"], c.inputs))


def count_bound(case, n_in, n_out, n_new):
    """Documented gate-count bound, or None."""
    fn = case["fn"]
    aig = is_aig(case.get("basis", "enum:XAIG"))
    if fn in ("add_sum_n_bits", "add_sum_n_weighted_bits", "generate_sum_n_bits", "generate_sum_weighted_bits_efficient"):
        return (7 * n_in - 3 * n_out) if aig else (4.5 * n_in - 2 * n_out)
    if fn in ("add_sum_n_weighted_bits_naive", "generate_sum_weighted_bits_naive"):
        return (7 * n_in - 3 * n_out) if aig else (5 * n_in - 2 * n_out)  # weaker of the two documented forms
    return None


def count_key(case, n_in):
    """Key of a gate-count excess.  The efficient XAIG weighted sum is known to exceed its documented 4.5n-2m on
    sparse weight vectors from n = 25 on (known finding, see DESIGN.md): those share one key; anything else --
    fewer than 25 operands, the AIG basis, the naive generator, the bit counts -- gets a key of its own."""
    if case["fn"] in ("add_sum_n_weighted_bits", "generate_sum_weighted_bits_efficient") and not is_aig(case.get("basis", "enum:XAIG")) and n_in >= 25:
        return "sum:add_sum_n_weighted_bits:XAIG:count-bound:n>=25"
    return f"sum:{key_of(case)}:count-bound:n={n_in}"


def key_of(case):
    k = [case["fn"]]
    if "basis" in case:
        k.append(case["basis"])
    if case.get("big_endian"):
        k.append("BE")
    if "shift" in case:
        na, nb = case["widths"]
        k.append("shift>n" if case["shift"] > na else "shift=n" if case["shift"] == na else "shift<n")
    return ":".join(k)


def replay_src(case, host, assign):
    return (REPLAY_PRELUDE + host.before_src + "\nfrom checks import c07\n"
            f"case={case!r}\noperands={host.operands!r}\nassign={assign!r}\nbefore=circ.netlist_of(c)\n"
            "bad=[]\n"
            "try:\n    outs, ins, flags = c07.invoke(case, c, operands)\nexcept Exception as e:\n    print('raised', type(e).__name__, e); sys.exit(1)\n"
            "after=circ.netlist_of(c)\n"
            "missing=[l for _,l in outs if l not in after]\n"
            "if missing: bad.append(('returned labels are not gates', missing))\n"
            "if any(after.get(k)!=v for k,v in before.items()): bad.append('pre-existing gate changed')\n"
            "new=[l for l in after if l not in before]\n"
            "if c07.is_aig(case.get('basis','enum:XAIG')) and {after[l][0] for l in new} & {'XOR','NXOR'}: bad.append('XOR/NXOR gates under AIG basis')\n"
            "bound=c07.count_bound(case, len(ins), len(outs), len(new))\n"
            "if bound is not None and len(new)>bound: bad.append(('gate count', len(new), bound))\n"
            "if not flags.get('levels_may_repeat') and len({l for l,_ in outs})!=len(outs): bad.append('levels not distinct')\n"
            "if not bad:\n"
            "    from checks.gencommon import concrete_values\n    vals=concrete_values(c, assign, [l for _,l in outs])\n"
            "    lhs=sum(int(bool(vals[l]))<<lev for lev,l in outs); rhs=sum(int(bool(assign[l]))<<w for w,l in ins)\n"
            "    if lhs!=rhs: bad.append(('sum', lhs, rhs))\n"
            "print(bad)\nsys.exit(1 if bad else 0)\n")


def check_case(p, case, rnd, timeout_ms=120000):
    host = gencommon.Host(case.get("host", "fresh"), case["widths"], rnd)
    desc = f"{case} in {host.before_desc}"
    p.case(("c07", repr(sorted(case.items()))), sample=desc if len(p.samples) < 3 else None)
    if case.get("history") == "remove-and-call-again":
        used_before(case, host)
        desc = f"{case} in {host.before_desc}"
    outs_before = list(host.c.outputs)
    try:
        outs, ins, flags = invoke(case, host.c, host.operands)
    except Exception as e:  # noqa: BLE001
        p.violation(f"sum:{key_of(case)}:raises:{type(e).__name__}", f"{desc} raised {type(e).__name__}: {e}", replay_src(case, host, {}))
        return
    probs, new = host.structural_problems([l for _, l in outs], expect_outputs=outs_before,
                                          allowed_forbidden=gencommon.AIG_FORBIDDEN if is_aig(case.get("basis", "enum:XAIG")) else None)
    if not flags.get("levels_may_repeat") and len({lev for lev, _ in outs}) != len(outs):
        probs.append(f"levels are not pairwise distinct: {[lev for lev, _ in outs]}")
    bound = count_bound(case, len(ins), len(outs), len(new))
    if bound is not None and len(new) > bound:
        # reported under its own key; the sum identity below is decided regardless
        p.violation(count_key(case, len(ins)), f"{desc}: ['{len(new)} gates added, documented bound is {bound}']", replay_src(case, host, {l: False for l in host.cut_assignment()}))
    assign = {}
    if not probs:
        zs = host.cut_assignment()
        terms = host.terms([l for _, l in outs], zs)
        maxlev = max([lev for lev, _ in outs] + [w for w, _ in ins] + [0])
        width = maxlev + len(ins).bit_length() + len(outs).bit_length() + 2
        lhs = gencommon.weighted_sum([(t, lev) for (t, u), (lev, _) in zip(terms, outs)], width)
        rhs = gencommon.weighted_sum([(zs[l], w) for w, l in ins], width)
        undef = [u for t, u in terms]
        r, m = p.check([z3.Or(lhs != rhs, *undef)], timeout_ms=timeout_ms, label=f"sum {case}")
        if r == "sat":
            assign = gencommon.model_values(m, zs)
            probs.append(f"sum identity fails for operand values { {k: v for k, v in assign.items() if any(k == l for _, l in ins)} }")
        elif r == "unsat":
            if p.canaries_run < 2:
                r2, _ = p.check([lhs + 1 != rhs], label="canary")
                p.canary(r2 == "sat")
            if host.kind != "fresh":
                r3, m3 = p.check([z3.Or(*host.old_gates_unchanged_query())], label="old gates")
                if r3 == "sat":
                    probs.append("a pre-existing gate changed its function")
    if probs:
        if not assign:
            assign = {l: False for l in host.cut_assignment()}
        p.violation(f"sum:{key_of(case)}:{probs[0].split(' ')[0]}", f"{desc}: {probs[:3]}", replay_src(case, host, assign))


def check_generate(p, case):
    p.case(("c07gen", repr(sorted(case.items()))), sample=f"{case}" if len(p.samples) < 5 else None)
    aig = is_aig(case.get("basis", "enum:XAIG"))
    src = (REPLAY_PRELUDE + "from checks import c07\nimport itertools\n" + f"case={case!r}\n"
           "try:\n    c, outs, ins = c07.generate_form(case)\nexcept Exception as e:\n    print('raised', e); sys.exit(1)\n"
           "bad=circ.wf_problems(c)\n"
           "if c07.is_aig(case.get('basis','enum:XAIG')) and {g.gate_type.name for g in c.gates.values()} & {'XOR','NXOR'}: bad.append('XOR under AIG')\n"
           "n_new=len(c.gates)-len(c.inputs)\nb=c07.count_bound(case, len(c.inputs), len(c.outputs), n_new)\n"
           "if b is not None and n_new>b: bad.append(('count',n_new,b))\n"
           "if outs is not None and not bad:\n"
           "    for x in itertools.product((False,True), repeat=len(c.inputs)):\n"
           "        v=c.evaluate(list(x)); a=dict(zip(c.inputs,x))\n"
           "        lhs=sum(int(v[i])<<lev for i,(lev,l) in enumerate(outs)); rhs=sum(int(a[l])<<w for w,l in ins)\n"
           "        if lhs!=rhs: bad.append(('sum',x,lhs,rhs)); break\n"
           "print(bad); sys.exit(1 if bad else 0)\n")
    try:
        c, outs, ins = generate_form(case)
    except Exception as e:  # noqa: BLE001
        p.violation(f"sum:{key_of(case)}:raises:{type(e).__name__}", f"{case} raised {type(e).__name__}: {e}", src)
        return
    probs = list(circ.wf_problems(c))
    types = {g.gate_type.name for g in c.gates.values()}
    if aig and types & gencommon.AIG_FORBIDDEN:
        probs.append(f"gate types outside the requested basis: {sorted(types & gencommon.AIG_FORBIDDEN)}")
    n_new = len(c.gates) - len(c.inputs)
    bound = count_bound(case, len(c.inputs), len(c.outputs), n_new)
    if bound is not None and n_new > bound:
        probs.append(f"{n_new} gates, documented bound {bound}")
    if not probs and outs is not None:
        zs = {l: z3.Bool(f"v_{l}") for l in c.inputs}
        ev = c.evaluate([symeval.SymState(zs[l], False) for l in c.inputs])
        terms = [symeval.lift(v) for v in ev]
        width = max([lev for lev, _ in outs] + [w for w, _ in ins] + [0]) + len(ins).bit_length() + 3
        lhs = gencommon.weighted_sum([(symeval.zb(t.t), lev) for t, (lev, _) in zip(terms, outs)], width)
        rhs = gencommon.weighted_sum([(zs[l], w) for w, l in ins], width)
        r, m = p.check([z3.Or(lhs != rhs, *[symeval.zb(t.u) for t in terms])], timeout_ms=120000, label=f"gen {case}")
        if r == "sat":
            probs.append("sum identity fails")
    elif not probs:
        # weighted generate_*: output levels are not returned; check the multiset identity through
        # the add_* form instead (same code path) and here only that the sum is *representable*:
        pass
    if probs:
        key = count_key(case, len(c.inputs)) if "documented bound" in probs[0] else f"sum:{key_of(case)}:{probs[0].split(' ')[0]}"
        p.violation(key, f"{case}: {probs[:3]}", src)


BASES = ["enum:XAIG", "enum:AIG", "XAIG", "AIG", "aig", "xaig"]


def make_cases(tier, rnd):
    thorough = tier == "thorough"
    cases = []
    hosts = ["fresh", "host", "repeat"]
    # operand gates whose labels are string literals of the generator sources (label independence)
    for n in (1, 2, 3, 5, 8):
        for rep_ in range(3 if thorough else 2):
            ws = [rnd.randint(0, 2) for _ in range(n)]
            cases.append(dict(fn="add_sum_n_bits", widths=[n], basis=rnd.choice(BASES), big_endian=bool(n % 2), host="literal-labels", rep=rep_))
            cases.append(dict(fn="add_sum_n_weighted_bits", widths=[n], weights=ws, basis=rnd.choice(BASES), host="literal-labels", rep=rep_))
            cases.append(dict(fn="add_sum_n_weighted_bits_naive", widths=[n], weights=ws, basis=rnd.choice(BASES), host="literal-labels", rep=rep_))
            cases.append(dict(fn="add_sum_two_numbers_with_shift", widths=[n, max(1, n - 1)], shift=rep_, host="literal-labels", rep=rep_))
            cases.append(dict(fn="add_sum_pow2_m1", widths=[n], basis="enum:XAIG", host="literal-labels", rep=rep_))
    # the same gadget requested twice with a host gate removed in between
    for n in (2, 3, 5):
        ws = [rnd.randint(0, 2) for _ in range(n)]
        for hk in ("fresh", "host"):
            cases.append(dict(fn="add_sum_n_bits", widths=[n], basis="enum:XAIG", host=hk, history="remove-and-call-again"))
            cases.append(dict(fn="add_sum_n_weighted_bits", widths=[n], weights=ws, basis="enum:AIG", host=hk, history="remove-and-call-again"))
            cases.append(dict(fn="add_sum_two_numbers", widths=[n, n], host=hk, history="remove-and-call-again"))
        cases.append(dict(fn="add_sum_two_numbers", widths=[n, n], host="repeat2", alias=True))
        if n >= 3:
            cases.append(dict(fn="add_sum_two_numbers", widths=[n, n], big_endian=bool(n % 2), host=("rotated2", "reversed2", "other-repeats2")[n % 3]))
            cases.append(dict(fn="add_sum_two_numbers_with_shift", widths=[n, n], shift=1, host=("reversed2", "other-repeats2", "rotated2")[n % 3]))
        cases.append(dict(fn="add_sum_two_numbers_with_shift", widths=[n, n], shift=1, host="repeat2", alias=True))
    # sparse weight vectors: a run of levels holding three bits each keeps the compression in its least economical regime
    for profile in ([6, 3, 3, 3, 3, 3, 3, 1], [6, 3, 3, 3, 3, 3, 3, 3, 3, 3, 1], [6, 7, 1, 3, 7, 7, 4, 1, 1], [6, 3, 3, 3, 3, 1], [5, 3, 3, 3, 3, 3, 2]):
        ws = [lev for lev, k in enumerate(profile) for _ in range(k)]
        for basis in ("enum:XAIG", "xaig", "enum:AIG"):
            cases.append(dict(fn="add_sum_n_weighted_bits", widths=[len(ws)], weights=ws, basis=basis, host="fresh", heavy=True))
        cases.append(dict(fn="add_sum_n_weighted_bits_naive", widths=[len(ws)], weights=ws, basis="enum:XAIG", host="fresh", heavy=True))
    # weight vectors with empty levels between occupied ones (a carry pair must keep its level across the gap)
    for ws in ([0, 0, 0, 0, 2], [1, 1, 1, 1, 3, 3, 3], [0] * 8 + [3], [0, 0, 0, 0, 0, 3], [2, 2, 2, 2, 5, 7], [0] * 4 + [4, 4, 4, 4, 9], [0, 2], [0] * 6 + [3]):
        for basis in ("enum:XAIG", "XAIG", "enum:AIG"):
            cases.append(dict(fn="add_sum_n_weighted_bits", widths=[len(ws)], weights=list(ws), basis=basis, host="fresh"))
        cases.append(dict(fn="add_sum_n_weighted_bits_naive", widths=[len(ws)], weights=list(ws), basis="enum:XAIG", host="host"))
    # bit counts
    ns = list(range(1, 13)) + [16, 24, 31, 32] if not thorough else list(range(1, 33))
    for n in ns:
        for b in BASES[:2] + [rnd.choice(BASES[2:])]:
            for be in (False, True):
                cases.append(dict(fn="add_sum_n_bits", widths=[n], basis=b, big_endian=be, host=rnd.choice(hosts) if n <= 10 else "fresh"))
        cases.append(dict(fn="add_sum_n_bits_easy", widths=[n], big_endian=bool(n % 2), host="fresh"))
        cases.append(dict(fn="generate_sum_n_bits", widths=[n], n=n, basis=rnd.choice(BASES), big_endian=bool(n % 2), gen=True))
    cases.append(dict(fn="add_sum2", widths=[2], host="host"))
    cases.append(dict(fn="add_sum3", widths=[3], host="host"))
    # weighted sums: exhaustive small weight vectors, then seeded larger ones
    maxn, maxw = (4, 3) if thorough else (3, 2)
    for n in range(1, maxn + 1):
        for ws in itertools.product(range(maxw + 1), repeat=n):
            for fn in ("add_sum_n_weighted_bits", "add_sum_n_weighted_bits_naive"):
                cases.append(dict(fn=fn, widths=[n], weights=list(ws), basis=BASES[(sum(ws) + n) % len(BASES)], host="fresh" if n > 2 else "host"))
    for i in range(120 if thorough else 30):
        n = rnd.randint(3, 40 if thorough else 20)
        ws = [rnd.randint(0, rnd.choice([1, 3, 8])) for _ in range(n)]
        for fn in ("add_sum_n_weighted_bits", "add_sum_n_weighted_bits_naive"):
            cases.append(dict(fn=fn, widths=[n], weights=ws, basis=rnd.choice(BASES), host=rnd.choice(hosts) if n <= 12 else "fresh"))
        cases.append(dict(fn=rnd.choice(["generate_sum_weighted_bits_efficient", "generate_sum_weighted_bits_naive"]), widths=[n], weights=ws,
                          basis=rnd.choice(BASES), gen=True))
    # two-number adders
    wmax = 10 if thorough else 6
    for na in range(1, wmax + 1):
        for nb in range(1, wmax + 1):
            if not thorough and (na + nb) % 2 and na > 3:
                continue
            cases.append(dict(fn="add_sum_two_numbers", widths=[na, nb], big_endian=bool((na + nb) % 2), host=rnd.choice(hosts)))
            for sh in range(0, na + 4):
                if not thorough and sh > na + 2 and nb > 2:
                    continue
                cases.append(dict(fn="add_sum_two_numbers_with_shift", widths=[na, nb], shift=sh, big_endian=bool(sh % 2), host="fresh" if sh % 3 else "host"))
    for w in ([16, 32, 64] if thorough else [16, 64]):
        cases.append(dict(fn="add_sum_two_numbers", widths=[w, w - 3], host="fresh"))
        cases.append(dict(fn="add_sum_two_numbers_with_shift", widths=[w, w], shift=w // 2, host="fresh"))
    # 2^k-1 blocks
    for n in (list(range(1, 13)) + [15, 16, 31, 32]) if not thorough else range(1, 33):
        for b in ("enum:XAIG", "enum:AIG", "AIG"):
            cases.append(dict(fn="add_sum_pow2_m1", widths=[n], basis=b, big_endian=bool(n % 2), host="fresh" if n > 8 else "host"))
    return cases


def unit(p, item, tier, seed):
    rnd = random.Random(item["seed"])
    for case in item["cases"]:
        if case.get("gen"):
            check_generate(p, case)
        else:
            check_case(p, case, rnd)


def linear_unit(p, item, tier, seed):
    """Sizes beyond the direct bit-vector query: block lemmas + integer conservation (checks/c08_lin.py)."""
    from checks import c08_lin

    case = item
    probs, stats, wit = c08_lin.sum_conservation(p, case, block_timeout_ms=120000)
    desc = {k: (v if k != "weights" else f"{len(v)} weights <= {max(v)}") for k, v in case.items()}
    p.case(("c07-lin", repr(sorted((k, repr(v)) for k, v in case.items()))), sample=f"linear conservation {desc}: {stats}")
    for k, v in stats.items():
        p.count(f"lin_{k}", v)
    n_new = stats["gates"] - stats["inputs"]
    bound = count_bound(case, stats["inputs"], stats["outputs"], n_new)
    structural = []
    if bound is not None and n_new > bound:
        structural.append(f"{n_new} gates added, documented bound is {bound}")
    hard = [x for x in probs if "inconclusive" not in x]
    for x in probs:
        if "inconclusive" in x:
            p.inconclusive.append(f"{desc}: {x}")
    replay = (REPLAY_PRELUDE + "from checks import c07, c08_lin\n" + f"case={case!r}\nassign=@ASSIGN@\n"
              "got, want = c08_lin.concrete_sum(case, assign)\n"
              "from cirbo.core.circuit import Circuit\n"
              "c = Circuit.bare_circuit(sum(case['widths']), prefix='in'); labs=list(c.inputs); ops=[]; k=0\n"
              "for w in case['widths']:\n    ops.append(labs[k:k+w]); k+=w\n"
              "outs, ins, flags = c07._invoke(case, c, ops)\nn_new=len(c.gates)-len(labs)\n"
              "b=c07.count_bound(case, len(ins), len(outs), n_new)\n"
              "print(got, want, n_new, b)\nsys.exit(1 if got != want or (b is not None and n_new > b) else 0)\n")
    n_inputs = sum(case["widths"])
    if structural:
        p.violation(count_key(case, stats["inputs"]), f"{desc}: {structural}", replay.replace('@ASSIGN@', repr([False] * n_inputs)))
        return
    if not hard:
        if p.canaries_run < 1 and stats["blocks"]:
            p.canary(c08_lin.sum_conservation(p, case, drop_block=0)[2] is not None)
        return
    cands = []
    if wit is not None:
        cands.append([wit[f"in{i}"] if f"in{i}" in wit else False for i in range(n_inputs)])
        cands[0] = list(wit.values())
    rnd = random.Random(7)
    cands += [[True] * n_inputs] + [[rnd.random() < q for _ in range(n_inputs)] for q in (0.5, 0.8, 0.2) for _ in range(100)]
    for assign in cands:
        got, want = c08_lin.concrete_sum(case, assign)
        if got != want:
            p.violation(f"sum:{key_of(case)}:sum:wide", f"{desc}: {hard[:2]}; a concrete assignment gives {got} instead of {want}", replay.replace('@ASSIGN@', repr(list(assign))))
            return
    p.inconclusive.append(f"linear conservation of {desc} failed ({hard[0]}) but no concrete wrong sum was found")
    p.queries["unknown"] += 1


def linear_cases(thorough, rnd):
    cases = []
    for n in ((33, 64, 100, 257) if not thorough else (33, 40, 63, 64, 65, 100, 128, 257, 500, 1000)):
        cases.append(dict(fn="add_sum_n_bits", widths=[n], basis="enum:XAIG", big_endian=bool(n % 2)))
        cases.append(dict(fn="add_sum_n_bits", widths=[n], basis="str:aig" if "str:aig" in BASES else "enum:AIG"))
        cases.append(dict(fn="add_sum_pow2_m1", widths=[n], basis="enum:XAIG"))
    cases.append(dict(fn="add_sum_n_bits_easy", widths=[100], big_endian=True))
    for n, wmax in ((60, 6), (120, 9), (300, 20)) + (((500, 40), (1000, 12)) if thorough else ()):
        ws = [rnd.randint(0, wmax) for _ in range(n)]
        for fn in ("add_sum_n_weighted_bits", "add_sum_n_weighted_bits_naive"):
            for basis in ("enum:XAIG", "enum:AIG"):
                cases.append(dict(fn=fn, widths=[n], weights=ws, basis=basis))
    for a, b in ((100, 100), (64, 9), (9, 64), (33, 32)) + (((256, 256), (500, 3)) if thorough else ()):
        cases.append(dict(fn="add_sum_two_numbers", widths=[a, b], big_endian=bool((a + b) % 2)))
        for sh in (0, 1, min(a, b), max(a, b) + 3):
            cases.append(dict(fn="add_sum_two_numbers_with_shift", widths=[a, b], shift=sh, big_endian=bool(sh % 2)))
    return cases


def run(rep, tier, seed, only=None):
    symeval.install()
    rep.functions = ["summation.add_sum_n_bits/_add_sum_n_bits/_add_sum_n_bits_aig/add_sum_n_bits_easy", "add_sum2/add_sum3/add_sum2_aig/add_sum3_aig/add_mdfa/add_simplified_mdfa/add_stockmeyer_block",
                     "add_sum_n_weighted_bits / add_sum_n_weighted_bits_naive", "add_sum_two_numbers / add_sum_two_numbers_with_shift", "add_sum_pow2_m1",
                     "generate_sum_n_bits / generate_sum_weighted_bits_efficient / _naive", "_utils.add_gate_from_tt", "Circuit.evaluate_circuit (cut points)"]
    rep.bounds = {"bit count n": "<= 32", "weighted sums": "all weight vectors n<=3,w<=2 (quick) / n<=4,w<=3 (thorough); seeded n<=20 (quick) / <=40 (thorough), weights <= 8",
                  "two-number adders": "all widths <= 6 (quick) / <= 10 (thorough), every shift 0..n+3; widths 16..64 spot",
                  "basis spellings": BASES, "hosts": "fresh inputs / arbitrary gates of a host circuit / repeated gate"}
    rep.outside = ["monolithic bit-vector identity for bit counts above 32 (z3 does not finish n = 64 in 300 s; those sizes are decided compositionally, hosts = fresh inputs only)", "unbounded n: only the listed widths are claimed",
                   "the naive weighted sum is held to the weaker of its two documented bounds (5n-2m)"]
    rep.rule = "case = (generator, widths/weights, basis spelling, endianness, host kind); operand values quantified by z3 (bit-vector identity)"
    rep.explanation = "z3 decides the bit-vector sum identity for all operand values per enumerated configuration; structural predicates (fresh gates only, basis, counts, distinct levels) per instance"
    rnd = random.Random(seed)
    cases = make_cases(tier, rnd)
    if only:
        cases = [c for c in cases if only in c["fn"]]
    rnd.shuffle(cases)
    chunks = [dict(seed=seed * 1000 + i, cases=cases[i::64]) for i in range(64)]
    rep.pmap(unit, [c for c in chunks if c["cases"]])
    if only is None or "linear" in only:
        rep.pmap(linear_unit, linear_cases(tier == "thorough", random.Random(seed + 11)))
        rep.bounds["wide sums (linear conservation)"] = ("bit counts 33..257 (quick) / ..1000 (thorough), weighted sums of 60..300 (..1000) bits, adders up to 100+100 (256+256), every shift class: "
                                                         "each inner block (MDFA, simplified MDFA, Stockmeyer, half/full adder, pair-forming/dissolving gates) exact by a bit-vector query over its real gates, "
                                                         "then one integer query: the block equations imply sum 2^lev*out == sum 2^w*in; gate-count bounds checked at these sizes too")
