"""C09, restoring division at widths beyond the direct bit-vector query, decided *compositionally*.

The real `add_div_mod` runs at n = 16 ... 64.  Its calls of `add_subtract_with_compare` are
recorded; the operand list of the k-th call (together with the untouched low bits of the
dividend) is the partial remainder entering iteration i = n-1-k, a cut point.

  D1  one query per iteration (bit-vectors over the real gates, the entering remainder R and
      the divisor b free):   q_i == (b << i  <=  R)   and   R' == R - (q_i ? b << i : 0)
      (for *every* R, no invariant needed: the comparison looks at the window of R above bit i
      and requires the divisor bits that would be shifted out to be zero);
  D2  the zero-divisor stage:  out_q == (b != 0 ? q : 0),  out_r == (b != 0 ? R_final : 0);
  D3  integers: from  R < 2*b*2^i  the step gives  0 <= R' < b*2^i  (b >= 1), so the final
      remainder is < b; with the telescoping identity  a = b*sum(q_i 2^i) + R_final  (each step
      subtracts exactly q_i*b*2^i) Euclid's uniqueness gives  q = a div b, r = a mod b.
D1 for every i + D2 + D3  =>  quotient and remainder are exact for all operand values.
"""
import z3

from checks import gencommon
from checks.c08_comp import _eval

from cirbo.core.circuit import Circuit
from cirbo.synthesis.generation.arithmetics import div_mod as DM


def _bv(terms, width):
    return gencommon.bv(terms, width)


def run_div_mod(n, big_endian):
    c = Circuit.bare_circuit(2 * n, prefix="in")
    a, b = list(c.inputs)[:n], list(c.inputs)[n:]
    calls = []
    orig = DM.add_subtract_with_compare

    def wrapper(circuit, xa, xb, **kw):
        xa, xb = list(xa), list(xb)
        out = orig(circuit, xa, xb, **kw)
        calls.append((xa, xb, out))
        return out

    DM.add_subtract_with_compare = wrapper
    try:
        q, r = DM.add_div_mod(c, a, b, big_endian=big_endian)
    finally:
        DM.add_subtract_with_compare = orig
    q, r = list(q), list(r)
    if big_endian:
        a, b, q, r = a[::-1], b[::-1], q[::-1], r[::-1]
    return c, a, b, q, r, calls


def div_mod_true_width(p, n, big_endian=False, timeout_ms=300000):
    """Returns (problems, stats)."""
    c, a, b, q, r, calls = run_div_mod(n, big_endian)
    probs, stats = [], {"n": n, "gates": len(c.gates), "iterations": len(calls)}
    if len(q) != n or len(r) != n:
        return [f"quotient/remainder have {len(q)}/{len(r)} bits, documented {n}"], stats
    if len(calls) != n:
        return [f"{len(calls)} subtract-with-compare steps recorded for {n} bits: not the restoring scheme this argument is about"], stats
    # the stage that forces 0 for a zero divisor: out = AND(pre, nonzero)
    pre_q, pre_r, nz = [], [], set()
    for lab, pre in [(x, pre_q) for x in q] + [(x, pre_r) for x in r]:
        g = c.gates[lab]
        if len(g.operands) != 2:
            return [f"result gate {lab} is not the two-operand zero-divisor guard"], stats
        pre.append(g.operands[0])
        nz.add(g.operands[1])
    if len(nz) != 1:
        return ["the zero-divisor guard is not one shared gate"], stats
    nz = nz.pop()
    W = 2 * n + 2
    Bz = {l: z3.Bool(f"b_{i}") for i, l in enumerate(b)}
    # ---- D2
    cuts = dict(Bz)
    for i, l in enumerate(dict.fromkeys(pre_q + pre_r)):
        cuts.setdefault(l, z3.Bool(f"pre_{i}"))
    outs = _eval(c, cuts, q + r)
    nonzero = z3.Or(*[Bz[l] for l in b])
    want = [z3.And(nonzero, cuts[l]) for l in pre_q + pre_r]
    res, _ = p.check([z3.Or(*[o != w for o, w in zip(outs, want)])], timeout_ms=timeout_ms, label=f"D2 n={n}")
    if res == "sat":
        probs.append("the zero-divisor stage is wrong")
    elif res != "unsat":
        probs.append("D2 inconclusive")
    # ---- D1
    for k, (xa, xb, out) in enumerate(calls):
        i = n - 1 - k
        m = n - i
        state = a[:i] + xa
        if len(xa) != m or xb != b[:m] or len(set(state)) != n:
            probs.append(f"iteration {i}: the compared window is not (remainder bits {i}..{n - 1}, divisor bits 0..{m - 1})")
            break
        nxt = (a[:i - 1] + calls[k + 1][0]) if i > 0 else pre_r
        if len(nxt) != n:
            probs.append(f"iteration {i}: next remainder has {len(nxt)} bits")
            break
        cuts = dict(Bz)
        for j, l in enumerate(state):
            cuts[l] = z3.Bool(f"r_{j}")
        R = _bv([cuts[l] for l in state], W)
        B = _bv([Bz[l] for l in b], W)
        sh = B << i
        cond = z3.ULE(sh, R)
        got = _eval(c, cuts, nxt + [pre_q[i]])
        Rn = _bv(got[:n], W)
        res, _ = p.check([z3.Or(got[n] != cond, Rn != z3.If(cond, R - sh, R))], timeout_ms=timeout_ms, label=f"D1 n={n} i={i}")
        if res == "sat":
            probs.append(f"iteration {i}: quotient bit or next remainder is wrong for some (remainder, divisor)")
            break
        if res != "unsat":
            probs.append(f"iteration {i}: D1 inconclusive")
    # ---- D3
    for i in sorted({0, 1, n // 2, n - 1}):
        K = 1 << i
        Rv, bv = z3.Ints("R b")
        qv = bv * K <= Rv
        Rn = z3.If(qv, Rv - bv * K, Rv)
        res, _ = p.check([bv >= 1, Rv >= 0, Rv < 2 * bv * K, z3.Or(Rn < 0, Rn >= bv * K)], label=f"D3 step K=2^{i}")
        if res != "unsat":
            probs.append(f"step lemma failed for K=2^{i}")
    av, bv, Qv, Rv = z3.Ints("a b Q R")
    res, _ = p.check([bv >= 1, av >= 0, Rv >= 0, Rv < bv, av == bv * Qv + Rv, z3.Or(Qv != av / bv, Rv != av % bv)], timeout_ms=60000, label="D3 Euclid")
    if res != "unsat":
        probs.append("Euclid uniqueness lemma " + ("failed" if res == "sat" else "inconclusive"))
    return probs, stats


def concrete_mismatch(n, big_endian, tries=400, seed=3):
    """Targeted concrete operand pairs through the really generated circuit."""
    import random

    c, a, b, q, r, _ = run_div_mod(n, big_endian)
    rnd = random.Random(seed)
    full = (1 << n) - 1
    cands = [(full, 1), (full, full), (full, 3), (1 << (n - 1), 1), (full, (1 << (n // 2)) + 1), (12345 % (full + 1), 0), (full - 1, full), (full, 2)]
    cands += [(rnd.randrange(full + 1), rnd.randrange(1, 1 << rnd.randint(1, n))) for _ in range(tries)]
    for av, bv in cands:
        assign = {l: bool((av >> i) & 1) for i, l in enumerate(a)}
        assign.update({l: bool((bv >> i) & 1) for i, l in enumerate(b)})
        vals = gencommon.concrete_values(c, assign, q + r)
        gq = sum(int(bool(vals[l])) << i for i, l in enumerate(q))
        gr = sum(int(bool(vals[l])) << i for i, l in enumerate(r))
        wq, wr = (av // bv, av % bv) if bv else (0, 0)
        if (gq, gr) != (wq, wr):
            return av, bv, gq, gr
    return None


# ---------------------------------------------------------------------------------------------------------
# integer square root (digit-by-digit), decided compositionally
#
#   Q1  one bit-vector query per iteration over the real gates, the entering state (remainder x, accumulator c)
#       free: the next state's gates equal the transcription
#           hi = 2*st, M = 2^(n-hi):  sm = (c>>hi)+1 mod M;  no = (x>>hi) < sm
#           x' = x mod 2^hi + (no ? x>>hi : (x>>hi)-sm mod M) << hi
#           c1 = c>>1;  sm2 = (c1>>hi)+1 mod M;  c' = no ? c1 : c1 mod 2^hi + sm2<<hi
#   Q2  integers, one query per iteration with s = 2^st: under the invariant
#           c = 2*P*s, x = a - P^2, P = 2*s*k, P + 2s <= 2^(n/2), P^2 <= a < (P+2s)^2
#       the transcription yields P' = P + (no ? 0 : s) with  c' = P'*s, x' = a - P'^2, P' = s*k',
#       P' + s <= 2^(n/2), P'^2 <= a < (P'+s)^2      (P^2 is a free integer Q: every use is linear in P and Q);
#   Q3  start (P = 0) and end (s = 1: c' = P', so the low half of c' is the root: P'^2 <= a < (P'+1)^2).
# Q1 for every iteration + Q2 + Q3  =>  the returned bits are floor(sqrt(a)) for every a.
from cirbo.synthesis.generation.arithmetics import sqrt as SQRT  # noqa: E402


def run_sqrt(n0, big_endian):
    c = Circuit.bare_circuit(n0, prefix="in")
    a = list(c.inputs)
    calls = []
    saved = (SQRT.add_sum_two_numbers, SQRT.add_subtract_with_compare)

    def wrap(kind, orig):
        def w(circuit, xa, xb, **kw):
            xa, xb = list(xa), list(xb)
            out = orig(circuit, xa, xb, **kw)
            calls.append((kind, xa, xb, out))
            return out
        return w

    SQRT.add_sum_two_numbers = wrap("sum", saved[0])
    SQRT.add_subtract_with_compare = wrap("sub", saved[1])
    try:
        res = list(SQRT.add_sqrt(c, a[::-1] if big_endian else list(a), big_endian=big_endian))
    finally:
        SQRT.add_sum_two_numbers, SQRT.add_subtract_with_compare = saved
    if big_endian:
        res = res[::-1]
    return c, a, res, calls


def sqrt_true_width(p, n0, big_endian=False, timeout_ms=300000):
    c, a, res, calls = run_sqrt(n0, big_endian)
    n = n0 + (n0 % 2)
    half = n // 2
    probs, stats = [], {"n": n0, "gates": len(c.gates), "iterations": len(calls) // 3}
    if len(res) != half:
        return [f"result has {len(res)} bits, documented {half}"], stats
    if len(calls) != 3 * half or any(k[0] != e for k, e in zip(calls, ["sum", "sub", "sum"] * half)):
        return ["the recorded calls are not (increment, subtract-with-compare, increment) per iteration: not the scheme this argument is about"], stats
    W = n + 4
    one = z3.BitVecVal(1, W)

    def mask(bits):
        return z3.BitVecVal((1 << bits) - 1, W)

    # padding gate of an odd width: it is the top "bit" of the first compared window
    xpad = list(a)
    if n != n0:
        xpad.append(calls[1][1][-1])
    for t in range(half):
        st = half - 1 - t
        hi, w = 2 * st, n - 2 * st
        sum1, sub = calls[3 * t], calls[3 * t + 1]
        if len(sum1[1]) != w or len(sub[1]) != w or sub[1][: 0] != [] or xpad[:hi] + sub[1] != (xpad if t == 0 else xpad[:hi] + sub[1]):
            probs.append(f"iteration {st}: windows have {len(sum1[1])}/{len(sub[1])} bits, expected {w}")
            break
        Xl = xpad[:hi] + sub[1]
        cuts = {}
        for l in Xl:
            if l in a or (t > 0 and l in sub[1]):
                cuts.setdefault(l, z3.Bool(f"x_{len(cuts)}"))
        for l in sum1[1]:
            if t > 0 and l not in cuts and len(c.gates[l].operands) and not _is_zero_gate(c, l):
                cuts.setdefault(l, z3.Bool(f"c_{len(cuts)}"))
        tx = _eval(c, cuts, Xl)
        tc = _eval(c, cuts, sum1[1])
        X = _bv(tx, W)
        Chi = _bv(tc, W)
        M = mask(w)
        sm = (Chi + one) & M
        Xhi = z3.LShR(X, hi)
        no = z3.ULT(Xhi, sm)
        Xn = (X & mask(hi)) + (z3.If(no, Xhi, (Xhi - sm) & M) << hi)
        C = Chi << hi
        C1 = z3.LShR(C, 1)
        sm2 = (z3.LShR(C1, hi) + one) & M
        Cn = z3.If(no, C1, (C1 & mask(hi)) + (sm2 << hi))
        if st > 0:
            nsum, nsub = calls[3 * (t + 1)], calls[3 * (t + 1) + 1]
            lo = hi - 2
            got_c = _bv(_eval(c, cuts, nsum[1]), W)
            got_x = _bv(_eval(c, cuts, nsub[1]), W)
            goal = z3.Or(got_c != z3.LShR(Cn, lo), got_x != z3.LShR(Xn, lo), (Cn & mask(lo)) != 0)
        else:
            got = _bv(_eval(c, cuts, res), W)
            goal = got != (Cn & mask(half))
        r, _ = p.check([goal], timeout_ms=timeout_ms, label=f"Q1 sqrt n={n0} st={st}")
        if r == "sat":
            probs.append(f"iteration {st}: the next remainder/accumulator (or the returned bits) are not the digit-recurrence step")
            break
        if r != "unsat":
            probs.append(f"iteration {st}: Q1 inconclusive")
    # ---- Q2 / Q3 over the integers
    for st in sorted({half - 1, half // 2, 1 if half > 1 else 0, 0}):
        s = 1 << st
        hi, w = 2 * st, n - 2 * st
        Mi = 1 << w
        av, P, Q, k = z3.Ints("a P Q k")
        Cv = 2 * P * s
        Xv = av - Q
        inv = [av >= 0, av < (1 << n), P >= 0, Q >= 0, k >= 0, P == 2 * s * k, P + 2 * s <= (1 << half), Q <= av, av < Q + 4 * s * P + 4 * s * s]
        Chi = Cv / (1 << hi)
        sm = (Chi + 1) % Mi
        Xhi = Xv / (1 << hi)
        no = Xhi < sm
        Xn = Xv % (1 << hi) + z3.If(no, Xhi, (Xhi - sm) % Mi) * (1 << hi)
        C1 = Cv / 2
        sm2 = (C1 / (1 << hi) + 1) % Mi
        Cn = z3.If(no, C1, C1 % (1 << hi) + sm2 * (1 << hi))
        Pn = z3.If(no, P, P + s)
        Qn = z3.If(no, Q, Q + 2 * P * s + s * s)  # (P+s)^2 = P^2 + 2Ps + s^2
        post = z3.And(Cn == Pn * s, Xn == av - Qn, Pn % s == 0, Pn + s <= (1 << half), Qn <= av, av < Qn + 2 * s * Pn + s * s)
        rv, _ = p.check(inv + [P > 0] if st < half - 1 else inv, label="Q2 reachability")
        if rv != "sat":
            probs.append(f"the integer invariant for s=2^{st} is unsatisfiable: the step lemma would be vacuous")
        r, _ = p.check(inv + [z3.Not(post)], timeout_ms=120000, label=f"Q2 sqrt step s=2^{st}")
        if r != "unsat":
            probs.append(f"integer step lemma for s=2^{st}: " + ("failed" if r == "sat" else "inconclusive"))
    rt, av = z3.Ints("root a")
    r, _ = p.check([av >= 0, rt >= 0, rt * rt <= av, av < rt * rt + 2 * rt + 1, z3.Not(z3.And(rt * rt <= av, av < (rt + 1) * (rt + 1)))], label="Q3 sqrt")
    if r != "unsat":
        probs.append("closing lemma failed")
    return probs, stats


def _is_zero_gate(c, l):
    g = c.gates[l]
    return g.gate_type.name == "XOR" and len(g.operands) == 2 and g.operands[0] == g.operands[1]


def sqrt_concrete_mismatch(n0, big_endian, tries=300, seed=5):
    import math
    import random

    c, a, res, _ = run_sqrt(n0, big_endian)
    rnd = random.Random(seed)
    full = (1 << n0) - 1
    cands = [0, 1, 2, 3, 4, full, full - 1, 1 << (n0 - 1), (1 << (n0 - 1)) - 1] + [r * r + d for r in (3, (1 << (n0 // 2)) - 1, 12345 % (1 << (n0 // 2))) for d in (-1, 0, 1)]
    cands += [rnd.randrange(full + 1) for _ in range(tries)]
    for av in cands:
        if not 0 <= av <= full:
            continue
        assign = {l: bool((av >> i) & 1) for i, l in enumerate(a)}
        vals = gencommon.concrete_values(c, assign, res)
        got = sum(int(bool(vals[l])) << i for i, l in enumerate(res))
        if got != math.isqrt(av):
            return av, got, math.isqrt(av)
    return None
