"""C09, restoring division at widths beyond the direct bit-vector query, decided *compositionally*.

The real `add_div_mod` runs at n = 16 ... 64.  Its calls of `add_subtract_with_compare` are
recorded; the operand list of the k-th call (together with the untouched low bits of the
dividend) is the partial remainder entering iteration i = n-1-k, a cut point.

  D1  one query per iteration (bit-vectors over the real gates, the entering remainder R and
      the divisor b free):   q_i == (b << i  <=  R)   and   R' == R - (q_i ? b << i : 0)
      (for *every* R, no invariant needed: the comparison looks at the window of R above bit i
      and requires the divisor bits that would be shifted out to be zero);
  D2  the zero-divisor stage:  out_q == (b != 0 ? q : 0),  out_r == (b != 0 ? R_final : 0);
  D3  integers: from  R < 2*b*2^i  the step gives  0 <= R' < b*2^i  (b >= 1), so the final
      remainder is < b; with the telescoping identity  a = b*sum(q_i 2^i) + R_final  (each step
      subtracts exactly q_i*b*2^i) Euclid's uniqueness gives  q = a div b, r = a mod b.
D1 for every i + D2 + D3  =>  quotient and remainder are exact for all operand values.
"""
import z3

from checks import gencommon
from checks.c08_comp import _eval

from cirbo.core.circuit import Circuit
from cirbo.synthesis.generation.arithmetics import div_mod as DM


def _bv(terms, width):
    return gencommon.bv(terms, width)


def run_div_mod(n, big_endian):
    c = Circuit.bare_circuit(2 * n, prefix="in")
    a, b = list(c.inputs)[:n], list(c.inputs)[n:]
    calls = []
    orig = DM.add_subtract_with_compare

    def wrapper(circuit, xa, xb, **kw):
        xa, xb = list(xa), list(xb)
        out = orig(circuit, xa, xb, **kw)
        calls.append((xa, xb, out))
        return out

    DM.add_subtract_with_compare = wrapper
    try:
        q, r = DM.add_div_mod(c, a, b, big_endian=big_endian)
    finally:
        DM.add_subtract_with_compare = orig
    q, r = list(q), list(r)
    if big_endian:
        a, b, q, r = a[::-1], b[::-1], q[::-1], r[::-1]
    return c, a, b, q, r, calls


def div_mod_true_width(p, n, big_endian=False, timeout_ms=300000):
    """Returns (problems, stats)."""
    c, a, b, q, r, calls = run_div_mod(n, big_endian)
    probs, stats = [], {"n": n, "gates": len(c.gates), "iterations": len(calls)}
    if len(q) != n or len(r) != n:
        return [f"quotient/remainder have {len(q)}/{len(r)} bits, documented {n}"], stats
    if len(calls) != n:
        return [f"{len(calls)} subtract-with-compare steps recorded for {n} bits: not the restoring scheme this argument is about"], stats
    # the stage that forces 0 for a zero divisor: out = AND(pre, nonzero)
    pre_q, pre_r, nz = [], [], set()
    for lab, pre in [(x, pre_q) for x in q] + [(x, pre_r) for x in r]:
        g = c.gates[lab]
        if len(g.operands) != 2:
            return [f"result gate {lab} is not the two-operand zero-divisor guard"], stats
        pre.append(g.operands[0])
        nz.add(g.operands[1])
    if len(nz) != 1:
        return ["the zero-divisor guard is not one shared gate"], stats
    nz = nz.pop()
    W = 2 * n + 2
    Bz = {l: z3.Bool(f"b_{i}") for i, l in enumerate(b)}
    # ---- D2
    cuts = dict(Bz)
    for i, l in enumerate(dict.fromkeys(pre_q + pre_r)):
        cuts.setdefault(l, z3.Bool(f"pre_{i}"))
    outs = _eval(c, cuts, q + r)
    nonzero = z3.Or(*[Bz[l] for l in b])
    want = [z3.And(nonzero, cuts[l]) for l in pre_q + pre_r]
    res, _ = p.check([z3.Or(*[o != w for o, w in zip(outs, want)])], timeout_ms=timeout_ms, label=f"D2 n={n}")
    if res == "sat":
        probs.append("the zero-divisor stage is wrong")
    elif res != "unsat":
        probs.append("D2 inconclusive")
    # ---- D1
    for k, (xa, xb, out) in enumerate(calls):
        i = n - 1 - k
        m = n - i
        state = a[:i] + xa
        if len(xa) != m or xb != b[:m] or len(set(state)) != n:
            probs.append(f"iteration {i}: the compared window is not (remainder bits {i}..{n - 1}, divisor bits 0..{m - 1})")
            break
        nxt = (a[:i - 1] + calls[k + 1][0]) if i > 0 else pre_r
        if len(nxt) != n:
            probs.append(f"iteration {i}: next remainder has {len(nxt)} bits")
            break
        cuts = dict(Bz)
        for j, l in enumerate(state):
            cuts[l] = z3.Bool(f"r_{j}")
        R = _bv([cuts[l] for l in state], W)
        B = _bv([Bz[l] for l in b], W)
        sh = B << i
        cond = z3.ULE(sh, R)
        got = _eval(c, cuts, nxt + [pre_q[i]])
        Rn = _bv(got[:n], W)
        res, _ = p.check([z3.Or(got[n] != cond, Rn != z3.If(cond, R - sh, R))], timeout_ms=timeout_ms, label=f"D1 n={n} i={i}")
        if res == "sat":
            probs.append(f"iteration {i}: quotient bit or next remainder is wrong for some (remainder, divisor)")
            break
        if res != "unsat":
            probs.append(f"iteration {i}: D1 inconclusive")
    # ---- D3
    for i in sorted({0, 1, n // 2, n - 1}):
        K = 1 << i
        Rv, bv = z3.Ints("R b")
        qv = bv * K <= Rv
        Rn = z3.If(qv, Rv - bv * K, Rv)
        res, _ = p.check([bv >= 1, Rv >= 0, Rv < 2 * bv * K, z3.Or(Rn < 0, Rn >= bv * K)], label=f"D3 step K=2^{i}")
        if res != "unsat":
            probs.append(f"step lemma failed for K=2^{i}")
    av, bv, Qv, Rv = z3.Ints("a b Q R")
    res, _ = p.check([bv >= 1, av >= 0, Rv >= 0, Rv < bv, av == bv * Qv + Rv, z3.Or(Qv != av / bv, Rv != av % bv)], timeout_ms=60000, label="D3 Euclid")
    if res != "unsat":
        probs.append("Euclid uniqueness lemma " + ("failed" if res == "sat" else "inconclusive"))
    return probs, stats


def concrete_mismatch(n, big_endian, tries=400, seed=3):
    """Targeted concrete operand pairs through the really generated circuit."""
    import random

    c, a, b, q, r, _ = run_div_mod(n, big_endian)
    rnd = random.Random(seed)
    full = (1 << n) - 1
    cands = [(full, 1), (full, full), (full, 3), (1 << (n - 1), 1), (full, (1 << (n // 2)) + 1), (12345 % (full + 1), 0), (full - 1, full), (full, 2)]
    cands += [(rnd.randrange(full + 1), rnd.randrange(1, 1 << rnd.randint(1, n))) for _ in range(tries)]
    for av, bv in cands:
        assign = {l: bool((av >> i) & 1) for i, l in enumerate(a)}
        assign.update({l: bool((bv >> i) & 1) for i, l in enumerate(b)})
        vals = gencommon.concrete_values(c, assign, q + r)
        gq = sum(int(bool(vals[l])) << i for i, l in enumerate(q))
        gr = sum(int(bool(vals[l])) << i for i, l in enumerate(r))
        wq, wr = (av // bv, av % bv) if bv else (0, 0)
        if (gq, gr) != (wq, wr):
            return av, bv, gq, gr
    return None
