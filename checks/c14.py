"""C14 — conversion to the bench basis preserves the function."""
import copy
import random

import z3

from vlib import circ, circgen, symeval
from checks.common import REPLAY_PRELUDE

HASH_SEEDS = {"quick": (1,), "thorough": (1, 2, 3)}  # also run (quick size) under these PYTHONHASHSEEDs
LEVEL = "translation_validation"
TECHNIQUE = "translation validation: z3 equivalence of every pre-existing gate's real-evaluator term before/after into_bench, plus basis/well-formedness/block predicates"
USES_STUBS = True

from cirbo.core.circuit import Circuit, gate as G  # noqa: E402

ALLOWED = {"INPUT", "NOT", "AND", "OR", "NAND", "NOR", "XOR", "NXOR", "IFF"}


def rebuild(c):
    """Structural clone that does not go through Circuit.__copy__ (keeps storage order and blocks)."""
    r = Circuit()
    for lab, g in c._gates.items():
        r._emplace_gate(lab, g.gate_type, tuple(g.operands))
    r.set_inputs(list(c._inputs))
    r.set_outputs(list(c._outputs))
    for name, b in c._blocks.items():
        r.make_block(name, list(b.gates), list(b.outputs), list(b.inputs))
    return r


def node_symbols(graph):
    import re

    return sorted(m[1] if m[1] is not None and m[0].startswith('"') else m[0] for m in re.findall(r'label=("([^"]*)"|[^\s\]]+)', graph.source))


def check(p, name, c, build_src=None):
    """build_src: source that builds `c` the way the checked object was built (history included)."""
    if not c.inputs:
        return
    orig = rebuild(c)
    before = circ.snapshot(orig)
    try:
        ret = c.into_bench()
    except Exception as e:  # noqa: BLE001
        p.violation(f"into_bench-raises:{type(e).__name__}", f"into_bench raised {type(e).__name__}: {e} on {circ.describe(orig)}",
                    REPLAY_PRELUDE + circ.circ_src(orig) + "\ntry:\n    c.into_bench()\nexcept Exception as e:\n    print(type(e).__name__, e); sys.exit(1)\nsys.exit(0)\n")
        return
    p.case(("c14", before[:3], before[4]), sample=f"{name}: {circ.describe(orig)} -> {len(c.gates)} gates")
    problems = []
    if ret is not c:
        problems.append("into_bench did not return the circuit")
    if list(c.inputs) != list(orig.inputs) or list(c.outputs) != list(orig.outputs):
        problems.append("inputs/outputs changed")
    bad_types = sorted({g.gate_type.name for g in c.gates.values()} - ALLOWED)
    if bad_types:
        problems.append(f"types outside the bench basis remain: {bad_types}")
    missing = [l for l in orig.gates if l not in c.gates]
    if missing:
        problems.append(f"pre-existing gates disappeared: {missing}")
    problems += circ.wf_problems(c)
    # helper gates live in exactly the blocks that contained the rewritten gate
    new = [l for l in c.gates if l not in orig.gates]
    if not problems:
        for h in new:
            users = set(c.get_gate_users(h))
            if len(users) != 1:
                problems.append(f"helper {h[:30]} has users {users}")
                continue
            (g,) = users
            for bname, b in c.blocks.items():
                inb = g in orig.blocks[bname].gates
                if (h in b.gates) != inb:
                    problems.append(f"helper of {g} {'missing from' if inb else 'wrongly in'} block {bname}")
        for bname, b in c.blocks.items():
            ob = orig.blocks[bname]
            if [x for x in b.gates if x in orig.gates] != list(ob.gates) or list(b.inputs) != list(ob.inputs) or list(b.outputs) != list(ob.outputs):
                problems.append(f"block {bname} lost or reordered original members")
    if not problems:
        zs = {lab: z3.Bool(f"x{i}") for i, lab in enumerate(orig.inputs)}
        sym = {lab: symeval.SymState(v, False) for lab, v in zs.items()}
        ta, tb = symeval.eval_all_gates(orig, sym), symeval.eval_all_gates(c, sym)
        res, m = p.check([z3.Or(*[symeval.states_differ(ta[l], tb[l]) for l in orig.gates])], label=f"equiv {name}")
        if res == "sat":
            assign = {lab: symeval.model_bool(m, v) for lab, v in zs.items()}
            diff = [l for l in orig.gates if symeval.model_bool(m, symeval.states_differ(ta[l], tb[l]))]
            problems.append(f"gates {diff} change value on {assign}")
    # drawing as bench must leave the original untouched
    if not problems:
        o2 = rebuild(orig)
        for dl, ar, db in ((False, False, False), (True, True, False), (True, False, True), (False, True, True)):
            try:
                o2.into_graphviz_digraph(as_bench=True, draw_blocks=db, draw_labels=dl, autorename_labels=ar)
                if circ.snapshot(o2) != before:
                    problems.append("into_graphviz_digraph(as_bench=True) modified the circuit")
            except Exception as e:  # noqa: BLE001
                try:
                    rebuild(orig).into_graphviz_digraph(as_bench=False, draw_blocks=db, draw_labels=dl, autorename_labels=ar)
                    plain_ok = True
                except Exception:  # noqa: BLE001
                    plain_ok = False  # the drawing itself refuses these options for this circuit (e.g. overlapping blocks): not the conversion's doing
                if plain_ok:
                    problems.append(f"into_graphviz_digraph(as_bench=True, draw_labels={dl}, autorename_labels={ar}, draw_blocks={db}) raised {type(e).__name__}: {e} (the same drawing without as_bench works)")
            if problems:
                break
    # what is drawn as bench is the converted circuit: same multiset of node symbols as a plain drawing of the
    # circuit converted above (helper labels carry fresh uuids, so symbols are compared, not names)
    if not problems:
        try:
            drawn = node_symbols(rebuild(orig).into_graphviz_digraph(as_bench=True, draw_blocks=False, draw_labels=False, autorename_labels=False))
            conv = node_symbols(c.into_graphviz_digraph(as_bench=False, draw_blocks=False, draw_labels=False, autorename_labels=False))
            if drawn != conv:
                problems.append(f"into_graphviz_digraph(as_bench=True) draws node symbols {drawn}, the converted circuit has {conv}")
        except Exception:  # noqa: BLE001 - drawing failures are judged above
            pass
    if problems:
        types = "+".join(sorted({g.gate_type.name for g in orig.gates.values()} - ALLOWED))[:60]
        p.violation(
            f"into_bench:{problems[0].split(' ')[0]}:{types}",
            f"{circ.describe(orig)} blocks={[(n, b.gates) for n, b in orig.blocks.items()]}: {problems[:3]}",
            REPLAY_PRELUDE + (build_src or circ.circ_src(orig)) + "\nimport itertools\n" + circ.circ_src(orig, "o") +
            "\nbefore=circ.snapshot(o)\nc.into_bench()\nbad=[]\n"
            f"ALLOWED={sorted(ALLOWED)!r}\n"
            "if list(c.inputs)!=list(o.inputs) or list(c.outputs)!=list(o.outputs): bad.append('interface')\n"
            "if {g.gate_type.name for g in c.gates.values()}-set(ALLOWED): bad.append('types')\n"
            "bad+=circ.wf_problems(c)\n"
            "for h in [l for l in c.gates if l not in o.gates]:\n"
            "    us=set(c.get_gate_users(h))\n"
            "    for bn,b in c.blocks.items():\n"
            "        if len(us)!=1 or ((h in b.gates)!=(list(us)[0] in o.blocks[bn].gates)): bad.append(('block',bn))\n"
            "if not bad:\n"
            "    for x in itertools.product((False,True), repeat=len(o.inputs)):\n"
            "        a=dict(zip(o.inputs,x)); ea=ref_concrete(circ.netlist_of(o),a); eb=ref_concrete(circ.netlist_of(c),a)\n"
            "        d=[l for l in o.gates if ea[l]!=eb[l]]\n"
            "        if d: bad.append(('value',a,d)); break\n"
            "for dl, ar, db in ((False, False, False), (True, True, False), (True, False, True), (False, True, True)):\n"
            "    try:\n        o.into_graphviz_digraph(as_bench=True, draw_blocks=db, draw_labels=dl, autorename_labels=ar)\n"
            "    except Exception as e:\n"
            "        try:\n            o.into_graphviz_digraph(as_bench=False, draw_blocks=db, draw_labels=dl, autorename_labels=ar); bad.append(('graphviz raised only as bench', type(e).__name__))\n"
            "        except Exception:\n            pass\n"
            "if circ.snapshot(o)!=before: bad.append('graphviz modified original')\n"
            "from checks.c14 import node_symbols\n"
            "try:\n    kw=dict(draw_blocks=False, draw_labels=False, autorename_labels=False)\n"
            "    if node_symbols(o.into_graphviz_digraph(as_bench=True, **kw))!=node_symbols(c.into_graphviz_digraph(as_bench=False, **kw)): bad.append('drawn as bench differs from the converted circuit')\n"
            "except Exception:\n    pass\n"
            "print(bad)\nsys.exit(1 if bad else 0)\n",
        )


def rename_in_block_then_convert(p, name, c0):
    """A gate that into_bench rewrites is renamed while it sits in a block; the helper gates of the later conversion
    must still land in that block (the same object is used throughout: nothing is rebuilt in between)."""
    if not c0.inputs or not c0.blocks:
        return
    obj = rebuild(c0)
    cands = [g for b in obj.blocks.values() for g in b.gates if g in obj.gates and obj.gates[g].gate_type.name in ("LT", "LEQ", "GT", "GEQ", "ALWAYS_TRUE", "ALWAYS_FALSE")]
    if not cands:
        return
    g = cands[0]
    try:
        obj.rename_gate(g, "renamed_" + g)
    except Exception:  # noqa: BLE001
        return
    check(p, name + "/renamed-in-block", obj, build_src=circ.circ_src(c0) + f"\nc.rename_gate({g!r}, {'renamed_' + g!r})\n")


def history_check(p, name, c):
    """into_bench, then re-introduce a convertible gate under the label of a rewritten one, then into_bench again."""
    if not c.inputs:
        return
    orig = rebuild(c)
    rewritten = [l for l, g in orig.gates.items() if g.gate_type.name in ("LT", "LEQ", "GT", "GEQ", "ALWAYS_TRUE", "ALWAYS_FALSE")]
    if not rewritten:
        return
    g = rewritten[0]
    t = orig.gates[g].gate_type
    src = (REPLAY_PRELUDE + circ.circ_src(orig) + f"\nfrom cirbo.core.circuit import gate as G\ng={g!r}\n"
           "bad=[]\ntry:\n    c.into_bench(); c.rename_gate(g, g+'_old')\n"
           f"    c.emplace_gate(g, G.{t.name}, {tuple(orig.gates[g].operands) or ()!r})\n    c.mark_as_output(g); c.into_bench()\n"
           "    bad+=circ.wf_problems(c)\n    bad+=[x for x in {q.gate_type.name for q in c.gates.values()} if x in ('LT','LEQ','GT','GEQ','ALWAYS_TRUE','ALWAYS_FALSE')]\n"
           "except Exception as e:\n    bad.append((type(e).__name__, str(e)))\nprint(bad); sys.exit(1 if bad else 0)\n")
    p.case(("c14-history", circ.snapshot(orig)[:3]), sample=f"{name}: convert, rename {g}, re-add {t.name} as {g}, convert again" if len(p.samples) < 6 else None)
    try:
        c.into_bench()
        c.rename_gate(g, g + "_old")
        c.emplace_gate(g, t, tuple(orig.gates[g].operands))
        c.mark_as_output(g)
        c.into_bench()
        probs = circ.wf_problems(c)
        left = {q.gate_type.name for q in c.gates.values()} - ALLOWED
        if left:
            probs.append(f"types outside the bench basis remain: {sorted(left)}")
    except Exception as e:  # noqa: BLE001
        probs = [f"{type(e).__name__}: {e}"]
    if probs:
        p.violation(f"into_bench-history:{probs[0].split(' ')[0].split(':')[0]}", f"second conversion after re-adding {t.name} gate {g!r}: {probs[:2]} ({circ.describe(orig)})", src)


def history_replace_inputs(p, name, c):
    """into_bench; replace_inputs; into_bench again: no constant may survive and the function is the cofactor."""
    if len(c.inputs) < 2 or not c.outputs:
        return
    orig = rebuild(c)
    fixed = orig.inputs[-1]
    src = (REPLAY_PRELUDE + circ.circ_src(orig) + "\nimport itertools\n" + circ.circ_src(orig, "o") + f"\nfixed={fixed!r}\nbad=[]\n"
           "try:\n    c.into_bench(); c.replace_inputs([fixed], []); c.into_bench()\n"
           "    left={g.gate_type.name for g in c.gates.values()} & {'ALWAYS_TRUE','ALWAYS_FALSE','LT','GT','LEQ','GEQ','LNOT','RNOT','LIFF','RIFF'}\n"
           "    if left: bad.append(('types remain', sorted(left)))\n    bad+=circ.wf_problems(c)\n"
           "    if not bad:\n        for x in itertools.product((False,True), repeat=len(c.inputs)):\n"
           "            a=dict(zip(c.inputs,x)); full=dict(a); full[fixed]=True\n"
           "            if [ref_concrete(circ.netlist_of(o),full)[k] for k in o.outputs]!=[ref_concrete(circ.netlist_of(c),a)[k] for k in c.outputs]: bad.append(('cofactor',a)); break\n"
           "except Exception as e:\n    bad.append((type(e).__name__, str(e)))\nprint(bad); sys.exit(1 if bad else 0)\n")
    p.case(("c14-history-ri", circ.snapshot(orig)[:3]), sample=f"{name}: convert, fix input {fixed} to True, convert again" if len(p.samples) < 7 else None)
    try:
        c.into_bench()
        c.replace_inputs([fixed], [])
        c.into_bench()
        probs = circ.wf_problems(c)
        left = {q.gate_type.name for q in c.gates.values()} - ALLOWED
        if left:
            probs.append(f"types outside the bench basis remain after the second conversion: {sorted(left)}")
        if not probs:
            zs = {lab: z3.Bool(f"x{i}") for i, lab in enumerate(orig.inputs)}
            sym = {lab: symeval.SymState(v, False) for lab, v in zs.items()}
            oa = orig.evaluate_circuit(dict(sym))
            ob = c.evaluate_circuit({k: v for k, v in sym.items() if k != fixed})
            r, m = p.check([zs[fixed], z3.Or(*[symeval.states_differ(oa[a], ob[b]) for a, b in zip(orig.outputs, c.outputs)])], label="history-cofactor")
            if r == "sat":
                probs.append("function after convert/fix/convert is not the cofactor")
    except Exception as e:  # noqa: BLE001
        probs = [f"{type(e).__name__}: {e}"]
    if probs:
        p.violation(f"into_bench-history-replace_inputs:{probs[0].split(' ')[0].split(':')[0]}", f"{probs[:2]} ({circ.describe(orig)})", src)


def lemma_circuits():
    out = []
    for t in circgen.BINARY_ONLY:
        for ops in (("a", "b"), ("b", "a"), ("a", "a")):
            out.append((f"lemma:{t.name}{ops}", circgen.build(["a", "b"], [("g", t, ops), ("o", G.XOR, ("g", "b"))], ["o", "g"])))
            c = circgen.build(["a", "b"], [("g", t, ops), ("h", t, ("g", "a")), ("k", t, ("b", "h")), ("o", G.AND, ("k", "g"))], ["k", "o"])
            c.make_block("B", ["g", "k"], ["k"])
            c.make_block("C", ["h"], [])
            out.append((f"lemma-chain:{t.name}{ops}", c))
    for t in circgen.CONST:
        c = circgen.build(["a", "b"], [("k", t, ()), ("o", G.OR, ("k", "b")), ("k2", t, ())], ["o", "k", "k2"])
        c.make_block("B", ["k", "o"], ["o"])
        out.append((f"lemma:{t.name}", c))
        out.append((f"lemma:{t.name}:second-input-first", circgen.build(["b", "a"], [("k", t, ()), ("o", G.LT, ("k", "a"))], ["o"])))
        # constants that carry operands (the circuit database stores constants that way)
        for ops in (("a", "b"), ("b",), ("b", "b"), ("o2", "a")):
            gates = [("o2", G.AND, ("a", "b")), ("k", t, ops), ("o", G.XOR, ("k", "o2"))]
            c = circgen.build(["a", "b"], gates, ["o", "k"])
            c.make_block("B", ["k", "o"], ["o"])
            out.append((f"lemma:{t.name}{ops}:with-operands", c))
    return out


def lemma_circuits_by_name(name):
    return dict(lemma_circuits())[name]


def unit(p, item, tier, seed):
    kind, arg = item
    if kind == "lemma":
        for name, c in lemma_circuits():
            check(p, name, c)
            history_check(p, name, rebuild(lemma_circuits_by_name(name)))
            history_replace_inputs(p, name, rebuild(lemma_circuits_by_name(name)))
            rename_in_block_then_convert(p, name, lemma_circuits_by_name(name))
        for name, c in circgen.feature_circuits() + circgen.large_circuits(seed):
            check(p, "feature:" + name, c)
        # canary: a wrong rewrite (GT -> AND without the NOT) must be refuted by the same query
        c = circgen.build(["a", "b"], [("g", G.GT, ("a", "b"))], ["g"])
        w = circgen.build(["a", "b"], [("g", G.AND, ("a", "b"))], ["g"])
        zs = {lab: z3.Bool(f"x{i}") for i, lab in enumerate(c.inputs)}
        sym = {lab: symeval.SymState(v, False) for lab, v in zs.items()}
        ta, tb = symeval.eval_all_gates(c, sym), symeval.eval_all_gates(w, sym)
        res, _ = p.check([symeval.states_differ(ta["g"], tb["g"])], label="canary")
        p.canary(res == "sat")
    else:
        s, count, maxg = arg
        rnd = random.Random(s)
        for i in range(count):
            c = circgen.random_circuit(rnd, rnd.randint(1, 5), rnd.randint(1, maxg), max_arity=rnd.choice([2, 3, 4]),
                                       shuffle_storage=bool(i % 2))
            circgen.add_random_blocks(c, rnd)
            c2 = rebuild(c)
            check(p, f"seeded[{s}:{i}]", c)
            if i % 3 == 0:
                history_check(p, f"seeded[{s}:{i}]", c2)
            if i % 3 == 1:
                history_replace_inputs(p, f"seeded[{s}:{i}]", c2)
            rename_in_block_then_convert(p, f"seeded[{s}:{i}]", c2)


def run(rep, tier, seed, only=None):
    symeval.install()
    thorough = tier == "thorough"
    rep.functions = ["Circuit.into_bench", "converters.convert_gate and every _convert_*", "converters._add_new_gate_to_blocks",
                     "Circuit.into_graphviz_digraph(as_bench=True)"]
    rep.bounds = {"circuits": "per-type lemma circuits (incl. identical operands, chains, blocks) + feature + seeded <=5 inputs/<=10 (quick) <=14 (thorough) gates, <=2 blocks"}
    rep.outside = ["circuits without inputs (documented precondition)"]
    rep.rule = "program = circuit (+blocks); every pre-existing gate's function compared before/after by z3 over all inputs"
    rep.explanation = "translation validation of into_bench"
    items = [("lemma", None)] + [("seeded", (seed * 57 + s, 40 if thorough else 15, 14 if thorough else 10)) for s in range(128 if thorough else 47)]
    rep.pmap(unit, items)
