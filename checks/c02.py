"""C02 — circuits stay well formed under every history of public mutations.

One inductive step from arbitrary well-formed pre-states (constructed directly)
plus short call sequences; the invariant is computed independently of cirbo's
traversal code (vlib/circ.py).  Bounded exploration: there is no value dimension
here (see DESIGN.md "honesty"); z3 is used only for the copy-equivalence clause.
"""
import copy
import random

import z3

from vlib import circ, circgen, symeval
from checks import mutators
from checks.common import REPLAY_PRELUDE

LEVEL = "exploration"
TECHNIQUE = "bounded exploration: one mutator step (and short sequences) from directly constructed well-formed states; independent invariant check; z3 for copy equivalence"
USES_STUBS = True

from cirbo.core.circuit import gate as G  # noqa: E402


def category(msg):
    for key, cat in (("users of", "users-index"), ("users index", "users-index"), ("inputs ", "inputs-list"), ("top_sort", "top_sort"),
                     ("operand", "dangling-operand"), ("output", "dangling-output"), ("block", "block"), ("cycle", "cycle"),
                     ("stored under", "label-mismatch")):
        if key in msg:
            return cat
    return msg.split(" ")[0][:20]


def call_key(call):
    k = call["kind"]
    if k == "connect":
        return f"connect:{call['how']}:{'right' if call.get('right') and call['how'] in ('connect_circuit', 'extend_circuit') or call['how'] in ('connect_right', 'connect_inputs') else 'left'}"
    return k


def replay_src(c0, calls):
    return (REPLAY_PRELUDE + circ.circ_src(c0) + "\nimport copy\nfrom checks import mutators\n"
            f"calls={calls!r}\nbad=[]\n"
            "from checks.c02 import check_copy_independent\n"
            "for call in calls:\n"
            "    prev=c\n"
            "    c=mutators.apply_call(c, call)\n"
            "    if call['kind']=='copy':\n"
            "        bad+=check_copy_independent(None, prev, c, None, None); c=prev\n"
            "bad+=circ.wf_problems(c)\n"
            "if not bad:\n"
            "    try:\n        cp=copy.copy(c)\n        if not (cp==c): bad.append('copy differs')\n"
            "    except Exception as e:\n        bad.append(('copy raised', type(e).__name__, str(e)))\n"
            "if not bad:\n"
            "    full=c.evaluate_full_circuit({i: False for i in c.inputs})\n"
            "    if set(full)!=set(c.gates): bad.append('evaluate_full_circuit misses gates')\n"
            "print(bad)\nsys.exit(1 if bad else 0)\n")


def check_copy_independent(p, c, cp, c0, calls):
    """A copy equals its original and shares no mutable state with it."""
    probs = []
    if not (cp == c) or circ.netlist_of(cp) != circ.netlist_of(c) or list(cp.inputs) != list(c.inputs) or list(cp.outputs) != list(c.outputs):
        probs.append("copy differs from original")
    if {n: (b.inputs, b.gates, b.outputs) for n, b in cp.blocks.items()} != {n: (b.inputs, b.gates, b.outputs) for n, b in c.blocks.items()}:
        probs.append("copy has different blocks")
    if probs:
        return probs
    s_orig = circ.snapshot(c)
    # mutate the copy in every way, the original must not move
    try:
        cp.add_inputs(["__cp_in"])
        cp.emplace_gate("__cp_g", G.NOT, ("__cp_in",))
        cp.mark_as_output("__cp_g")
        if cp.gates:
            first = next(iter(cp.gates))
            cp.rename_gate(first, "__cp_ren")
        for b in list(cp.blocks.values()):
            b.gates.append("__cp_g")
            b.inputs.append("__cp_in")
            b.outputs.append("__cp_g")
        cp.order_outputs(["__cp_g"])
    except Exception as e:  # noqa: BLE001
        probs.append(f"mutating the copy raised {type(e).__name__}: {e}")
    if circ.snapshot(c) != s_orig:
        probs.append("mutating the copy changed the original (shared mutable state)")
    return probs


def run_sequence(p, name, c0, calls):
    c = mutators.rebuild(c0)
    applied = []
    for call in calls:
        try:
            res = mutators.apply_call(c, call)
        except Exception as e:  # noqa: BLE001
            p.count("calls_raising")
            p.count(f"raised:{type(e).__name__}")
            return
        applied.append(call)
        p.count("calls_returning")
        p.count("ok:" + call_key(call))
        p.case(("step", circ.snapshot(c0), repr(applied)), sample=f"{name}: {circ.describe(c0)} ; calls={applied}" if len(p.samples) < 4 else None)
        probs = circ.wf_problems(res)
        if not probs and call["kind"] == "copy":
            probs = check_copy_independent(p, c, res, c0, applied)
            res = c
        if not probs:
            try:
                cp = copy.copy(res)
                if not (cp == res):
                    probs.append("copy differs from original")
            except Exception as e:  # noqa: BLE001
                probs.append(f"copy raised {type(e).__name__}: {e}")
        if not probs:
            try:
                full = res.evaluate_full_circuit({i: False for i in res.inputs})
                if set(full) != set(res.gates):
                    probs.append("evaluate_full_circuit does not reach every gate")
            except Exception as e:  # noqa: BLE001
                probs.append(f"evaluate_full_circuit raised {type(e).__name__}: {e}")
        if probs:
            p.violation(f"wf:{call_key(call)}:{category(probs[0])}",
                        f"after {applied} on {circ.describe(c0)} blocks={list(c0.blocks)}: {probs[:3]}",
                        replay_src(c0, applied))
            return
        c = res


def prestates(rnd, count, max_inputs, max_gates):
    out = []
    for name, c in circgen.feature_circuits():
        out.append((name, c))
    for i in range(count):
        c = circgen.random_circuit(rnd, rnd.randint(0 if i % 10 == 0 else 1, max_inputs), rnd.randint(0 if i % 10 == 1 else 1, max_gates),
                                   max_arity=3, n_outputs=rnd.randint(0, 3), shuffle_storage=bool(i % 2))
        circgen.add_random_blocks(c, rnd, 2)
        out.append((f"seeded[{i}]", c))
    return out


def unit(p, item, tier, seed):
    s = item
    rnd = random.Random(s)
    states = prestates(rnd, 25 if tier == "quick" else 60, 3, 5)
    if s % 16 != 0:
        states = [x for x in states if x[0].startswith("seeded")]
    for name, c0 in states:
        assert not circ.wf_problems(c0), "pre-state must satisfy the invariant"
        # one inductive step per mutator kind, several argument choices
        for kind in mutators.KINDS:
            for rep_i in range(3 if tier == "quick" else 6):
                call = mutators.random_call(rnd, c0, step=rep_i, kinds=[kind])
                if call is not None:
                    run_sequence(p, name, c0, [call])
        # short histories
        for h in range(4 if tier == "quick" else 10):
            c = mutators.rebuild(c0)
            calls = []
            for step in range(3):
                call = mutators.random_call(rnd, c, step=step)
                if call is None:
                    continue
                calls.append(call)
                try:
                    c = mutators.apply_call(c, call)
                except Exception:  # noqa: BLE001
                    break
            run_sequence(p, name + "/history", c0, calls)


def canary(p):
    """The invariant must flag a deliberately stale users index."""
    c = circgen.build(["a", "b"], [("g", G.AND, ("a", "b"))], ["g"])
    c._gate_to_users["a"].remove("g")
    p.canary(bool(circ.wf_problems(c)))
    c = circgen.build(["a", "b"], [("g", G.AND, ("a", "b"))], ["g"])
    c._inputs.append("a")
    p.canary(bool(circ.wf_problems(c)))


def run(rep, tier, seed, only=None):
    symeval.install()
    thorough = tier == "thorough"
    rep.functions = ["Circuit.add_gate/emplace_gate/remove_gate/rename_gate/mark_as_output/set_outputs/set_inputs/order_inputs/order_outputs/add_inputs/replace_inputs",
                     "Circuit.connect_circuit/connect_left/connect_right/connect_inputs/extend_circuit/add_circuit", "Circuit.replace_subcircuit",
                     "Circuit.make_block/make_block_from_slice/delete_block/remove_block", "Circuit.into_bench", "Circuit.__copy__",
                     "Circuit._add_user/_remove_user/_add_gate/_emplace_gate/_remove_gate/_remove_block", "Circuit.top_sort"]
    rep.bounds = {"pre-states": "feature circuits + seeded well-formed circuits <=3 inputs/<=5 gates/<=2 blocks, constructed directly",
                  "step": "each of 19 mutator kinds x several argument choices", "histories": "length <= 3"}
    rep.outside = ["calls that raise (the property speaks of calls that return normally)", "histories longer than 3 beyond the inductive argument",
                   "no value dimension: the program/history dimension is enumerated, not solved"]
    rep.rule = "case = (pre-state, call sequence) whose calls all returned; distinct by pre-state snapshot + calls"
    rep.explanation = "bounded exploration with an independently computed invariant"
    canary(rep)
    rep.pmap(unit, [seed * 173 + s for s in range(192 if thorough else 64)])
