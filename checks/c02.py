"""C02 — circuits stay well formed under every history of public mutations.

One inductive step from arbitrary well-formed pre-states (constructed directly)
plus short call sequences; the invariant is computed independently of cirbo's
traversal code (vlib/circ.py).  Bounded exploration: there is no value dimension
here (see DESIGN.md "honesty"); z3 is used only for the copy-equivalence clause.
"""
import copy
import random

import z3

from vlib import circ, circgen, forkexec, symeval, symnet
from checks import mutators
from checks.common import REPLAY_PRELUDE

HASH_SEEDS = {"quick": (1,), "thorough": (1, 2, 3)}  # also run (quick size) under these PYTHONHASHSEEDs
HASH_ONLY = "concrete"  # the symbolic step does not depend on the hash seed
LEVEL = "exploration"
TECHNIQUE = "bounded exploration: one mutator step (and short sequences) from directly constructed well-formed states; independent invariant check; z3 for copy equivalence"
USES_STUBS = True

from cirbo.core.circuit import gate as G  # noqa: E402


def category(msg):
    for key, cat in (("users of", "users-index"), ("users index", "users-index"), ("inputs ", "inputs-list"), ("top_sort", "top_sort"),
                     ("operand", "dangling-operand"), ("output", "dangling-output"), ("block", "block"), ("cycle", "cycle"),
                     ("stored under", "label-mismatch")):
        if key in msg:
            return cat
    return msg.split(" ")[0][:20]


def call_key(call):
    k = call["kind"]
    if k == "connect":
        return f"connect:{call['how']}:{'right' if call.get('right') and call['how'] in ('connect_circuit', 'extend_circuit') or call['how'] in ('connect_right', 'connect_inputs') else 'left'}"
    return k


def replay_src(c0, calls, extra="", reject=None):
    return (REPLAY_PRELUDE + circ.circ_src(c0) + extra + "\nimport copy\nfrom checks import mutators\n"
            f"calls={calls!r}\nbad=[]\nreject={reject!r}\n"
            "from checks.c02 import check_copy_independent\n"
            "for call in calls:\n"
            "    prev=c\n"
            "    c=mutators.apply_call(c, call)\n"
            "    if call['kind']=='copy':\n"
            "        bad+=check_copy_independent(None, prev, c, None, None); c=prev\n"
            "if reject is not None:\n    try:\n        mutators.apply_call(c, reject)\n    except Exception as e:\n        print('rejected:', type(e).__name__)\n"
            "bad+=circ.wf_problems(c)\n"
            "if not bad:\n"
            "    try:\n        cp=copy.copy(c)\n        if not (cp==c): bad.append('copy differs')\n"
            "    except Exception as e:\n        bad.append(('copy raised', type(e).__name__, str(e)))\n"
            "if not bad:\n"
            "    full=c.evaluate_full_circuit({i: False for i in c.inputs})\n"
            "    if set(full)!=set(c.gates): bad.append('evaluate_full_circuit misses gates')\n"
            "print(bad)\nsys.exit(1 if bad else 0)\n")


def check_copy_independent(p, c, cp, c0, calls):
    """A copy equals its original and shares no mutable state with it."""
    probs = []
    if not (cp == c) or circ.netlist_of(cp) != circ.netlist_of(c) or list(cp.inputs) != list(c.inputs) or list(cp.outputs) != list(c.outputs):
        probs.append("copy differs from original")
    if {n: (b.inputs, b.gates, b.outputs) for n, b in cp.blocks.items()} != {n: (b.inputs, b.gates, b.outputs) for n, b in c.blocks.items()}:
        probs.append("copy has different blocks")
    if probs:
        return probs
    s_orig = circ.snapshot(c)
    # mutate the copy in every way, the original must not move
    try:
        cp.add_inputs(["__cp_in"])
        cp.emplace_gate("__cp_g", G.NOT, ("__cp_in",))
        cp.mark_as_output("__cp_g")
        if cp.gates:
            first = next(iter(cp.gates))
            cp.rename_gate(first, "__cp_ren")
        for b in list(cp.blocks.values()):
            b.gates.append("__cp_g")
            b.inputs.append("__cp_in")
            b.outputs.append("__cp_g")
        cp.order_outputs(["__cp_g"])
    except Exception as e:  # noqa: BLE001
        probs.append(f"mutating the copy raised {type(e).__name__}: {e}")
    if circ.snapshot(c) != s_orig:
        probs.append("mutating the copy changed the original (shared mutable state)")
    return probs


def run_sequence(p, name, c0, calls, after_rejection=True):
    c = mutators.rebuild(c0)
    applied = []
    for call in calls:
        try:
            res = mutators.apply_call(c, call)
        except Exception as e:  # noqa: BLE001
            p.count("calls_raising")
            p.count(f"raised:{type(e).__name__}")
            # the caller catches the error and keeps using the circuit: it must still be a circuit
            # (replace_subcircuit finds a loop only after it has rewired the circuit: the property speaks of calls
            # that return normally, so the loop-closing family is not held to this stronger expectation)
            probs = circ.wf_problems(c) if after_rejection else []
            if probs:
                p.violation(f"wf:{call_key(call)}:{category(probs[0])}:after-a-rejected-call",
                            f"{call} on {circ.describe(c0)} (after {applied}) raised {type(e).__name__} and left the circuit ill formed: {probs[:3]}",
                            replay_src(c0, applied, reject=call))
            return
        applied.append(call)
        p.count("calls_returning")
        p.count("ok:" + call_key(call))
        p.case(("step", circ.snapshot(c0), repr(applied)), sample=f"{name}: {circ.describe(c0)} ; calls={applied}" if len(p.samples) < 4 else None)
        probs = circ.wf_problems(res)
        if not probs and call["kind"] == "copy":
            probs = check_copy_independent(p, c, res, c0, applied)
            res = c
        if not probs:
            try:
                cp = copy.copy(res)
                if not (cp == res):
                    probs.append("copy differs from original")
            except Exception as e:  # noqa: BLE001
                probs.append(f"copy raised {type(e).__name__}: {e}")
        if not probs:
            try:
                full = res.evaluate_full_circuit({i: False for i in res.inputs})
                if set(full) != set(res.gates):
                    probs.append("evaluate_full_circuit does not reach every gate")
            except Exception as e:  # noqa: BLE001
                probs.append(f"evaluate_full_circuit raised {type(e).__name__}: {e}")
        if probs:
            p.violation(f"wf:{call_key(call)}:{category(probs[0])}",
                        f"after {applied} on {circ.describe(c0)} blocks={list(c0.blocks)}: {probs[:3]}",
                        replay_src(c0, applied))
            return
        c = res


def prestates(rnd, count, max_inputs, max_gates):
    out = []
    for name, c in circgen.feature_circuits():
        out.append((name, c))
    for i in range(count):
        c = circgen.random_circuit(rnd, rnd.randint(0 if i % 10 == 0 else 1, max_inputs), rnd.randint(0 if i % 10 == 1 else 1, max_gates),
                                   max_arity=3, n_outputs=rnd.randint(0, 3), shuffle_storage=bool(i % 2))
        circgen.add_random_blocks(c, rnd, 2)
        if i % 6 == 5:
            c = copy.deepcopy(c)  # gate types equal to, not identical with, the module constants
        out.append((f"seeded[{i}]", c))
    return out


def unit(p, item, tier, seed):
    s = item
    rnd = random.Random(s)
    states = prestates(rnd, 25 if tier == "quick" else 60, 3, 5)
    if s % 16 != 0:
        states = [x for x in states if x[0].startswith("seeded")]
    if s % 16 == 0:
        for name, c0, call in mutators.loop_closing_cases():
            run_sequence(p, name, c0, [call], after_rejection=False)
    for name, c0 in states:
        assert not circ.wf_problems(c0), "pre-state must satisfy the invariant"
        # one inductive step per mutator kind, several argument choices
        for kind in mutators.KINDS:
            for rep_i in range(3 if tier == "quick" else 6):
                call = mutators.random_call(rnd, c0, step=rep_i, kinds=[kind])
                if call is not None:
                    run_sequence(p, name, c0, [call])
                    if rep_i == 0:
                        bad_call = mutators.corrupt_call(call, c0, rnd)
                        if bad_call is not None:
                            run_sequence(p, name + "/rejected", c0, [bad_call])
        # short histories
        for h in range(4 if tier == "quick" else 10):
            c = mutators.rebuild(c0)
            calls = []
            for step in range(3):
                call = mutators.random_call(rnd, c, step=step)
                if call is None:
                    continue
                calls.append(call)
                try:
                    c = mutators.apply_call(c, call)
                except Exception:  # noqa: BLE001
                    break
            run_sequence(p, name + "/history", c0, calls)


SYM_KINDS = ["remove_gate", "rename_gate", "mark_as_output", "set_outputs", "order_outputs", "add_gate", "emplace_gate", "reinsert", "add_inputs", "replace_inputs", "copy"]


def symbolic_step_unit(p, item, tier, seed):
    """One mutator step from an *arbitrary* well-formed pre-state of a shape: operands and outputs are symbolic
    labels, the users index is the lazy inverse of the initial operands (the invariant is assumed, and whether an
    unread gate is absent from the index or present with an empty list is a free choice), the call's label
    arguments are symbolic too.  z3 proves that the explored paths cover every choice."""
    n_in, arities, n_out, kind = item
    net = symnet.SymNetlist(n_in, arities, n_out, tag="w", index_representation=True)
    if not net.feasible():
        return
    a0, a1 = z3.Int("w_arg0"), z3.Int("w_arg1")
    base = net.base() + [z3.And(a0 >= 0, a0 < len(net.nodes)), z3.And(a1 >= 0, a1 < len(net.nodes))]

    def make_call():
        x, y = symnet.SymLabel(a0, net.nodes), symnet.SymLabel(a1, net.nodes)
        if kind in ("remove_gate", "mark_as_output"):
            return dict(kind=kind, label=x)
        if kind == "rename_gate":
            return dict(kind=kind, old=x, new="fresh")
        if kind in ("set_outputs", "order_outputs"):
            return dict(kind=kind, labels=[x, y])
        if kind in ("add_gate", "emplace_gate"):
            return dict(kind=kind, label="fresh", type="XOR", operands=[x, y])
        if kind == "reinsert":
            return dict(kind=kind, label=x, type="NOR", operands=[y, y])
        if kind == "add_inputs":
            return dict(kind=kind, labels=["fresh", "fresh2"])
        if kind == "replace_inputs":
            return dict(kind=kind, true=[x], false=[y])
        return dict(kind=kind)

    def plain_call(call):
        return {k: ([symnet.plain(e) for e in v] if isinstance(v, list) else symnet.plain(v)) for k, v in call.items()}

    def body():
        c = net.build()
        call = make_call()
        try:
            res = mutators.apply_call(c, call)
        except Exception as e:  # noqa: BLE001
            return ("raised", type(e).__name__, plain_call(call))
        probs = list(circ.wf_problems(res))
        if not probs and kind == "copy":
            probs = check_copy_independent(None, c, res, None, None)
        if not probs:
            try:
                full = res.evaluate_full_circuit({i: False for i in res.inputs})
                if {symnet.plain(k) for k in full} != set(res.gates):
                    probs.append("evaluate_full_circuit does not reach every gate")
            except Exception as e:  # noqa: BLE001
                probs.append(f"evaluate_full_circuit raised {type(e).__name__}: {e}")
        return ("ok", probs, plain_call(call))

    paths, stats = forkexec.explore(body, base=base, max_paths=400000, catch=(Exception,))
    total = len(net.nodes) ** (n_out + 2)
    for j, a in enumerate(arities):
        total *= len(net.universe(j)) ** a
    p.case(("symstep", item), sample=f"{kind} from every well-formed pre-state with {n_in} inputs, gate arities {arities}, {n_out} outputs and every label argument: "
           f"{total} (state, call) pairs covered by {stats['paths']} paths")
    p.count("symbolic_state_call_pairs", total)
    p.count("symbolic_paths", stats["paths"])
    p.count("feasibility_queries", stats["queries"])
    p.solver_s += stats.get("solver_s", 0.0)
    p.queries["unsat" if stats["covered"] else "unknown"] += 1
    if not stats["covered"]:
        p.error(f"coverage not proven for {item}")
    for path in paths:
        if path.exc is not None:
            probs, call = [f"harness raised {type(path.exc).__name__}: {path.exc}"], None
        elif path.result[0] == "raised":
            p.count("calls_raising")
            continue
        else:
            _, probs, call = path.result
            p.count("calls_returning")
        if not probs:
            continue
        m = symnet.path_model(path, base)
        p.queries["sat" if m is not None else "unknown"] += 1
        if m is None or call is None:
            p.error(f"symbolic step {item}: {probs[:2]} on a path without a model")
            continue
        cc = net.concrete_circuit(m)
        fix = "\n"
        for lab, v in net.absent_vars.items():
            if not any(lab in g.operands for g in cc.gates.values()):
                fix += (f"c._gate_to_users.pop({lab!r}, None)\n" if z3.is_true(m.eval(v, model_completion=True)) else f"c._gate_to_users.setdefault({lab!r}, [])\n")
        p.violation(f"wf:{kind}:{category(probs[0])}:symbolic", f"after {call} on {circ.describe(cc)}: {probs[:3]}", replay_src(cc, [call], extra=fix))
        return


def symbolic_items(thorough):
    shapes = [(1, (1,), 1), (2, (2,), 1), (1, (1, 1), 1), (2, (2, 1), 1), (2, (1, 2), 2)] + ([(2, (2, 2), 1), (2, (2, 2), 2), (2, (2, 1, 2), 1), (1, (1, 2, 2), 1), (3, (2, 2), 1)] if thorough else [])
    return [(n_in, ar, n_out, kind) for n_in, ar, n_out in shapes for kind in SYM_KINDS]


def canary(p):
    """The invariant must flag a deliberately stale users index."""
    c = circgen.build(["a", "b"], [("g", G.AND, ("a", "b"))], ["g"])
    c._gate_to_users["a"].remove("g")
    p.canary(bool(circ.wf_problems(c)))
    c = circgen.build(["a", "b"], [("g", G.AND, ("a", "b"))], ["g"])
    c._inputs.append("a")
    p.canary(bool(circ.wf_problems(c)))


def run(rep, tier, seed, only=None):
    symeval.install()
    thorough = tier == "thorough"
    rep.functions = ["Circuit.add_gate/emplace_gate/remove_gate/rename_gate/mark_as_output/set_outputs/set_inputs/order_inputs/order_outputs/add_inputs/replace_inputs",
                     "Circuit.connect_circuit/connect_left/connect_right/connect_inputs/extend_circuit/add_circuit", "Circuit.replace_subcircuit",
                     "Circuit.make_block/make_block_from_slice/delete_block/remove_block", "Circuit.into_bench", "Circuit.__copy__",
                     "Circuit._add_user/_remove_user/_add_gate/_emplace_gate/_remove_gate/_remove_block", "Circuit.top_sort"]
    rep.bounds = {"pre-states": "feature circuits + seeded well-formed circuits <=3 inputs/<=5 gates/<=2 blocks, constructed directly",
                  "step": "each of 19 mutator kinds x several argument choices", "histories": "length <= 3"}
    rep.outside = ["calls that raise (the property speaks of calls that return normally)", "histories longer than 3 beyond the inductive argument",
                   "no value dimension: the program/history dimension is enumerated, not solved"]
    rep.bounds['rejected calls'] = 'one deliberately invalid variant per mutator kind and pre-state (missing or taken label): after the error the circuit must still be well formed'
    rep.rule = "case = (pre-state, call sequence) whose calls all returned; distinct by pre-state snapshot + calls"
    rep.explanation = "bounded exploration with an independently computed invariant"
    canary(rep)
    if only is None or "symbolic" in only:
        rep.pmap(symbolic_step_unit, symbolic_items(thorough))
        rep.bounds["symbolic step"] = ("every well-formed pre-state (all operand/output choices, both index representations of unread gates) with <=2 inputs and gate arities up to (2,2) (quick) / (2,1,2), 3 inputs (thorough) "
                                       "x every label argument of remove/rename/mark/set_outputs/order_outputs/add/emplace/reinsert/add_inputs/replace_inputs/copy; path coverage proven by z3")
    if only == "symbolic":
        return
    rep.pmap(unit, [seed * 173 + s for s in range(192 if thorough else 64)])
