"""C04 — SAT-based subcircuit minimization returns an equivalent, not larger circuit."""
import os
import random
import subprocess
import sys

import z3

from vlib import circ, circgen, symeval
from checks.common import REPLAY_PRELUDE

LEVEL = "translation_validation"
TECHNIQUE = "translation validation: z3 equivalence of real-evaluator terms (argument vs result of minimize_subcircuits) under environment stubs for cut enumeration and SAT solving; 'no equivalent gates' precondition decided by z3"
USES_STUBS = True

from cirbo.core.circuit import Circuit, gate as G  # noqa: E402
from cirbo.minimization.exception import FailedValidationError, UnsupportedOperationError  # noqa: E402

SUP = circgen.SUBCIRCUIT_TYPES
BIN = [t for t in SUP if t != G.NOT]


def rebuild(c):
    r = Circuit()
    for lab, g in c._gates.items():
        r._emplace_gate(lab, g.gate_type, tuple(g.operands))
    r.set_inputs(list(c._inputs))
    r.set_outputs(list(c._outputs))
    return r


def has_equivalent_gates(p, c):
    """z3: is there a pair of distinct gates (inputs included) with the same function?"""
    zs = {lab: z3.Bool(f"x{i}") for i, lab in enumerate(c.inputs)}
    terms = symeval.eval_all_gates(c, {lab: symeval.SymState(v, False) for lab, v in zs.items()})
    labs = list(c.gates)
    # quick concrete signature filter, then z3 confirmation
    import itertools

    rows = list(itertools.islice(itertools.product((False, True), repeat=len(c.inputs)), 64))
    sig = {}
    for lab in labs:
        pass
    for i, a in enumerate(labs):
        for b in labs[i + 1:]:
            s = z3.Solver()
            s.add(symeval.states_differ(terms[a], terms[b]))
            r = str(s.check())
            p.queries["sat" if r == "sat" else "unsat" if r == "unsat" else "unknown"] += 1
            if r == "unsat":
                return (a, b)
    return None


class timeouts_at:
    """Environment stub for the time-limited solver call (pebble.ProcessPool + future.result(timeout)):
    the call runs in-process and, for the call numbers in `calls`, ends the way pebble documents for an
    expired time limit (TimeoutError from future.result()).  Which calls time out is the schedule."""

    def __init__(self, calls):
        self.calls, self.count = set(calls), 0

    def __enter__(self):
        import types
        from cirbo.synthesis import circuit_search as cs

        outer = self

        class _Future:
            def __init__(self, fn, args, idx):
                self.fn, self.args, self.idx = fn, args, idx

            def result(self):
                if self.idx in outer.calls:
                    raise TimeoutError()
                return self.fn(*self.args)

        class _Pool:
            def __init__(self, *a, **k):
                pass

            def __enter__(self):
                return self

            def __exit__(self, *exc):
                return False

            def schedule(self, fn, args=(), kwargs=None, timeout=None):
                outer.count += 1
                return _Future(fn, list(args), outer.count - 1)

        self.cs, self.saved = cs, cs.pebble
        cs.pebble = types.SimpleNamespace(ProcessPool=_Pool)
        return self

    def __exit__(self, *exc):
        self.cs.pebble = self.saved
        return False


def minimize(c, params, schedule, model_seed=None):
    """model_seed: which of its admissible models the SAT-solver stub returns (random phase under that seed)."""
    from cirbo.minimization import minimize_subcircuits
    from pysat import solvers as PS

    saved = PS.MODEL_SEED
    PS.MODEL_SEED = model_seed
    try:
        if schedule is None and model_seed is None:
            return minimize_subcircuits(c, **params)
        with timeouts_at(schedule if schedule is not None else set()) as t:  # in-process solver call (the seed must reach it)
            r = minimize_subcircuits(c, **params)
        minimize.calls = t.count
        return r
    finally:
        PS.MODEL_SEED = saved


def run_case(p, name, c0, params, variant, schedule=None, model_seed=None):
    import mockturtle_wrapper as mw
    from cirbo.minimization import minimize_subcircuits as _real  # noqa: F401

    minimize_subcircuits = lambda c, **params: minimize(c, params, schedule, model_seed)  # noqa: E731
    c = rebuild(c0)
    mw.VARIANT = variant
    src = (REPLAY_PRELUDE + circ.circ_src(c0) + "\nimport itertools\nimport mockturtle_wrapper as mw\nfrom cirbo.minimization import minimize_subcircuits\n"
           "from cirbo.minimization.exception import FailedValidationError, UnsupportedOperationError\n"
           f"mw.VARIANT={variant!r}\nparams={params!r}\n" + circ.circ_src(c0, "o") + "\n"
           f"from checks import c04\nschedule={None if schedule is None else sorted(schedule)!r}\nmodel_seed={model_seed!r}\n_real=minimize_subcircuits\nminimize_subcircuits=lambda c, **params: c04.minimize(c, params, schedule, model_seed)\n")
    p.case(("c04", circ.snapshot(c0)[:3], repr(sorted(params.items())), repr(variant), None if schedule is None else tuple(sorted(schedule)), model_seed),
           sample=f"{name}: {circ.describe(c0)} params={params} cuts={variant}" if len(p.samples) < 3 else None)
    try:
        r = minimize_subcircuits(c, **params)
    except UnsupportedOperationError:
        p.count("unsupported")
        return
    except FailedValidationError:
        p.violation(f"minimize:FailedValidationError:{params['basis']}", f"validation failed for {circ.describe(c0)} params={params} cuts={variant} timeouts={schedule}",
                    src + "try:\n    minimize_subcircuits(c, **params)\nexcept FailedValidationError:\n    print('FailedValidationError'); sys.exit(1)\nexcept Exception as e:\n    print(type(e).__name__, e)\nsys.exit(0)\n")
        return
    except Exception as e:  # noqa: BLE001
        eq = has_equivalent_gates(p, c0)
        if eq is None:
            import traceback

            where = traceback.extract_tb(e.__traceback__)[-1]
            p.violation(f"minimize:internal-error:{type(e).__name__}:{where.name}",
                        f"{type(e).__name__}: {e} at {where.name}:{where.lineno} for {circ.describe(c0)} (no two gates are functionally equivalent) params={params} cuts={variant} solver calls that time out={schedule}",
                        src + "try:\n    minimize_subcircuits(c, **params)\nexcept (FailedValidationError, UnsupportedOperationError) as e:\n    print(type(e).__name__); sys.exit(0)\n"
                        "except Exception as e:\n    tt=o.get_gates_truth_table(); labs=list(tt)\n"
                        "    eq=[(a,b) for i,a in enumerate(labs) for b in labs[i+1:] if list(tt[a])==list(tt[b])]\n"
                        "    print(type(e).__name__, e, 'equivalent gates:', eq); sys.exit(1 if not eq else 0)\nsys.exit(0)\n")
        else:
            p.count("internal_error_with_equivalent_gates(not claimed)")
        return
    finally:
        mw.VARIANT = "canonical"
    probs = []
    if list(r.inputs) != list(c0.inputs):
        probs.append(f"inputs {list(r.inputs)} != {list(c0.inputs)}")
    if len(r.outputs) != len(c0.outputs):
        probs.append("number of outputs changed")
    if r.gates_number() > c0.gates_number():
        probs.append(f"result has {r.gates_number()} non-trivial gates, argument {c0.gates_number()}")
    probs += circ.wf_problems(r)
    if not probs:
        zs = {lab: z3.Bool(f"x{i}") for i, lab in enumerate(c0.inputs)}
        sym = {lab: symeval.SymState(v, False) for lab, v in zs.items()}
        oa, ob = c0.evaluate_circuit(dict(sym)), r.evaluate_circuit(dict(sym))
        dis = [symeval.states_differ(oa[a], ob[b]) for a, b in zip(c0.outputs, r.outputs)]
        res, m = p.check([z3.Or(*dis)] if dis else [z3.BoolVal(False)], label=f"equiv {name}")
        if res == "sat":
            probs.append(f"truth table differs on { {k: symeval.model_bool(m, v) for k, v in zs.items()} }")
        elif p.canaries_run < 1 and dis:
            o0 = symeval.lift(ob[r.outputs[0]])
            r2, _ = p.check([symeval.states_differ(oa[c0.outputs[0]], symeval.SymState(symeval.b_not(o0.t), False))], label="canary")
            p.canary(r2 == "sat")
        if r.gates_number() < c0.gates_number():
            p.count("improved")
    if probs:
        p.violation(f"minimize:{probs[0].split(' ')[0]}:{params['basis']}", f"{probs[:2]} for {circ.describe(c0)} -> {circ.describe(r)} params={params} cuts={variant} solver calls that time out={schedule}",
                    src + "r=minimize_subcircuits(c, **params)\nbad=[]\n"
                    "if list(r.inputs)!=list(o.inputs) or len(r.outputs)!=len(o.outputs): bad.append('interface')\n"
                    "if r.gates_number()>o.gates_number(): bad.append('larger')\n"
                    "bad+=circ.wf_problems(r)\n"
                    "if not bad:\n"
                    "    for x in itertools.product((False,True), repeat=len(o.inputs)):\n"
                    "        a=dict(zip(o.inputs,x)); ea=ref_concrete(circ.netlist_of(o),a); eb=ref_concrete(circ.netlist_of(r),a)\n"
                    "        if [ea[k] for k in o.outputs]!=[eb[k] for k in r.outputs]: bad.append(('function',a)); break\n"
                    "print(bad); sys.exit(1 if bad else 0)\n")


def redundant_circuit(rnd, n_in, n_g, wide=False):
    """Random circuit over the supported set with built-in redundancy (wide: some AND/OR/XOR-family gates read 3-4 operands)."""
    inputs = [f"x{i}" for i in range(n_in)]
    nodes = list(inputs)
    gates = []

    def add(t, ops):
        lab = f"g{len(gates)}"
        gates.append((lab, t, tuple(ops)))
        nodes.append(lab)
        return lab

    for _ in range(n_g):
        kind = rnd.random()
        if wide and len(nodes) >= 3 and rnd.random() < 0.35:
            add(rnd.choice([G.AND, G.OR, G.XOR, G.NAND, G.NOR, G.NXOR]), rnd.sample(nodes, rnd.choice([3, 3, 4]) if len(nodes) >= 4 else 3))
        elif kind < 0.15:
            add(G.NOT, [rnd.choice(nodes)])
        elif kind < 0.3 and len(nodes) >= 2:
            a, b = rnd.sample(nodes, 2)
            inner = add(rnd.choice([G.OR, G.AND]), [a, b])
            add(rnd.choice([G.AND, G.OR]), [a, inner])  # absorption
        elif kind < 0.4 and gates:
            lab, t, ops = rnd.choice(gates)
            if len(ops) == 2:
                add(t, ops if rnd.random() < 0.5 else ops[::-1])  # duplicated cone
            else:
                add(t, ops)
        else:
            a, b = (rnd.sample(nodes, 2) if len(nodes) >= 2 and rnd.random() < 0.9 else (rnd.choice(nodes),) * 2)
            add(rnd.choice(BIN), [a, b])
    outs = rnd.sample([g[0] for g in gates], min(len(gates), rnd.randint(1, 3)))
    if rnd.random() < 0.2:
        outs.append(rnd.choice(inputs))
    if rnd.random() < 0.2:
        outs.append(outs[0])
    # dangling gates hanging off the live logic (they belong to cones but feed nothing)
    for _ in range(rnd.choice([0, 0, 1, 2, 3])):
        a, b = rnd.choice(nodes), rnd.choice(nodes)
        add(rnd.choice(BIN), [a, b])
    order = None
    if rnd.random() < 0.4:
        # storage order of the gate map need not be topological (renames, bench files)
        order = list(nodes)
        rnd.shuffle(order)
    return circgen.build(inputs, gates, outs, order)


def special_circuits():
    out = []
    # a cone that exports the negation of one of its leaves, with a smaller cone available
    out.append(("negated-leaf-exported", circgen.build(
        ["a", "b", "c"],
        [("n", G.NOT, ("a",)), ("p", G.AND, ("n", "b")), ("q", G.OR, ("p", "b")), ("r", G.XOR, ("q", "c")), ("s", G.AND, ("n", "c"))],
        ["r", "s"])))
    out.append(("absorption", circgen.build(["a", "b"], [("o", G.OR, ("a", "b")), ("x", G.AND, ("a", "o"))], ["x"])))
    out.append(("absorbed-output-listed-twice", circgen.build(
        ["x", "y", "z"], [("g1", G.OR, ("x", "y")), ("g2", G.AND, ("x", "g1")), ("g3", G.XOR, ("y", "z"))], ["g2", "g3", "g2"])))
    out.append(("absorbed-outputs-only-twice", circgen.build(["x", "y"], [("g1", G.OR, ("x", "y")), ("g2", G.AND, ("x", "g1"))], ["g2", "g2"])))
    out.append(("improvable-output-listed-twice", circgen.build(
        ["a", "b"], [("o", G.OR, ("a", "b")), ("n", G.NAND, ("a", "b")), ("x", G.AND, ("o", "n"))], ["x", "a", "x"])))
    # a cone is replaced by a smaller one (a label vanishes) and a later cone still lists the vanished gate
    out.append(("later-cone-holds-a-vanished-gate", circgen.build(
        ["a", "b", "c", "d"], [("g1", G.AND, ("a", "b")), ("g3", G.AND, ("b", "c")), ("g4", G.AND, ("g1", "g3")), ("k", G.AND, ("c", "d")), ("m", G.LT, ("b", "d")),
                               ("n", G.OR, ("k", "m"))], ["g4", "n"])))
    # a cone exporting a function and its complement (the search has slack: spare gates are filled arbitrarily by the model)
    out.append(("complementary-outputs-xor", circgen.build(
        ["a", "b"], [("t", G.AND, ("a", "b")), ("u", G.NOR, ("a", "b")), ("o1", G.NOR, ("t", "u")), ("o2", G.OR, ("t", "u"))], ["o1", "o2"])))
    out.append(("complementary-outputs-mux", circgen.build(
        ["s", "a", "b"], [("ns", G.NOT, ("s",)), ("t1", G.AND, ("s", "a")), ("t2", G.AND, ("ns", "b")), ("m", G.OR, ("t1", "t2")), ("nm", G.NOR, ("t1", "t2")),
                          ("x", G.AND, ("m", "a")), ("y", G.OR, ("nm", "b"))], ["x", "y", "m", "nm"])))
    out.append(("xor-from-and-or", circgen.build(
        ["a", "b"], [("o", G.OR, ("a", "b")), ("n", G.NAND, ("a", "b")), ("x", G.AND, ("o", "n"))], ["x"])))
    out.append(("output-is-cone-member", circgen.build(
        ["a", "b", "c"], [("p", G.AND, ("a", "b")), ("q", G.OR, ("p", "c")), ("r", G.AND, ("q", "p"))], ["r", "p", "q"])))
    out.append(("mux-redundant", circgen.build(
        ["s", "a", "b"], [("ns", G.NOT, ("s",)), ("t1", G.AND, ("s", "a")), ("t2", G.AND, ("ns", "b")), ("m", G.OR, ("t1", "t2")),
                          ("u", G.AND, ("a", "b")), ("o", G.OR, ("m", "u"))], ["o"])))
    out.append(("not-or-and-with-dangling", circgen.build(
        ["a", "b", "c"], [("t", G.AND, ("a", "b")), ("u", G.OR, ("t", "c")), ("o", G.NOT, ("u",)), ("d1", G.XOR, ("a", "c")), ("d2", G.NAND, ("b", "c")),
                          ("d3", G.OR, ("t", "a"))], ["o"])))
    out.append(("not-or-and-with-two-dangling-over-leaves", circgen.build(
        ["a", "b", "c"], [("t", G.AND, ("a", "b")), ("u", G.OR, ("t", "c")), ("o", G.NOT, ("u",)), ("d1", G.XOR, ("a", "c")), ("d2", G.NAND, ("b", "c"))], ["o"])))
    out.append(("nand-chain-with-dangling", circgen.build(
        ["a", "b", "c", "d"], [("t", G.NAND, ("a", "b")), ("n", G.NOT, ("t",)), ("u", G.AND, ("n", "c")), ("o", G.NOT, ("u",)), ("d1", G.OR, ("a", "c")),
                               ("d2", G.GT, ("b", "c")), ("d3", G.LT, ("a", "b"))], ["o"])))
    out.append(("xor-and-stored-backwards", circgen.build(
        ["a", "b", "c"], [("g", G.AND, ("a", "b")), ("h", G.XOR, ("g", "c"))], ["h"], ["h", "c", "g", "b", "a"])))
    out.append(("full-adder-aig", circgen.build(
        ["a", "b", "c"],
        [("x1", G.OR, ("a", "b")), ("x2", G.NAND, ("a", "b")), ("x", G.AND, ("x1", "x2")), ("y1", G.OR, ("x", "c")), ("y2", G.NAND, ("x", "c")),
         ("s", G.AND, ("y1", "y2")), ("c1", G.AND, ("a", "b")), ("c2", G.AND, ("x", "c")), ("co", G.OR, ("c1", "c2"))], ["s", "co"])))
    return out


PREFIXES = ["g", "n", "w", "gate_", "node", "k", "q", "t_", "aux", "z", "v", "sig", "m_", "p"]


def correlated_leaves(rnd):
    """A two-gate cone over three leaf gates that share primary inputs (so some leaf combinations never occur and the
    cone has don't-care rows); the leaf order inside the library comes from a set of labels, hence the label prefixes."""
    pre = rnd.choice(PREFIXES)
    xs = ["x0", "x1", "x2", "x3"]
    g = [f"{pre}{i}" for i in range(5)]
    shared = rnd.choice(xs)
    pairs = [(rnd.choice([x for x in xs if x != shared]), shared), (shared, rnd.choice([x for x in xs if x != shared])), tuple(rnd.sample(xs, 2))]
    gates = [(g[i], rnd.choice(BIN), pairs[i]) for i in range(3)]
    i, j, k = rnd.sample(range(3), 3)
    gates.append((g[3], rnd.choice(BIN), (g[i], g[j])))
    gates.append((g[4], rnd.choice(BIN), (g[3], g[k]) if rnd.random() < 0.5 else (g[k], g[3])))
    return circgen.build(xs, gates, [g[4]])


def six_leaf_cone(k):
    """x_k and none of the other five inputs: a cone with six leaves (only reached with cut_size >= 6)."""
    xs = [f"x{i}" for i in range(6)]
    others = [x for i, x in enumerate(xs) if i != k]
    gates = [("o1", G.OR, (others[0], others[1])), ("o2", G.OR, ("o1", others[2])), ("o3", G.OR, ("o2", others[3])), ("o4", G.OR, ("o3", others[4])), ("f", G.GT, (xs[k], "o4"))]
    return circgen.build(xs, gates, ["f"])


MODEL_SWEEP = ("complementary-outputs-xor", "complementary-outputs-mux", "output-is-cone-member", "negated-leaf-exported")


def unit(p, item, tier, seed):
    if isinstance(item, tuple) and item[0] == "six":
        run_case(p, f"six-leaf-cone-{item[1]}", six_leaf_cone(item[1]), dict(basis="XAIG", enable_validation=bool(item[1] % 2), cut_size=6, solver_time_limit_sec=0), "canonical")
        return
    if isinstance(item, tuple):
        # whichever admissible model the solver returns: random-phase models under a range of seeds
        _, name, basis, lo, hi = item
        c0 = dict(special_circuits())[name]
        for ms in range(lo, hi):
            run_case(p, name, c0, dict(basis=basis, enable_validation=bool(ms % 2)), "canonical", model_seed=ms)
        return
    s = item
    rnd = random.Random(s)
    thorough = tier == "thorough"
    fam = special_circuits() if s % 8 == 0 else []
    for i in range(4 if not thorough else 12):
        c0 = correlated_leaves(rnd)
        run_case(p, f"correlated[{s}:{i}]", c0, dict(basis=rnd.choice(["XAIG", "AIG", "FULL"]), enable_validation=True, cut_size=3), "canonical")
        run_case(p, f"correlated[{s}:{i}]", c0, dict(basis="XAIG", enable_validation=True), "canonical")
    for i in range(6 if not thorough else 14):
        fam.append((f"seeded[{s}:{i}]", redundant_circuit(rnd, rnd.randint(2, 4), rnd.randint(3, 9 if thorough else 7))))
    for i in range(3 if not thorough else 8):
        fam.append((f"seeded-wide-gates[{s}:{i}]", redundant_circuit(rnd, rnd.randint(3, 4), rnd.randint(2, 6), wide=True)))
    variants = ["canonical", "reversed", ("shuffled", s), ("truncated", 2)]
    for name, c0 in fam:
        if not name.startswith("seeded"):
            # special shapes: every basis with the default parameters and the canonical cut family
            for basis in ("AIG", "XAIG", "FULL"):
                run_case(p, name, c0, dict(basis=basis, enable_validation=True, max_subcircuit_size=9, solver_time_limit_sec=15, cut_size=5, cut_limit=25), "canonical")
                run_case(p, name, c0, dict(basis=basis, enable_validation=False, solver_time_limit_sec=0), "canonical")


        for k in range(2 if not thorough else 4):
            params = dict(
                basis=rnd.choice(["AIG", "XAIG", "FULL", "xaig"]) if k else rnd.choice(["XAIG", "AIG"]),
                enable_validation=(k % 2 == 0) or rnd.random() < 0.5,
                max_subcircuit_size=rnd.choice([2, 4, 9]),
                solver_time_limit_sec=rnd.choice([1, 15]) if thorough else 15,
                cut_size=rnd.choice([2, 3, 5]),
                cut_limit=rnd.choice([2, 25]),
            )
            if isinstance(params["basis"], str) and rnd.random() < 0.3:
                from cirbo.synthesis.circuit_search import Basis

                params["basis"] = params["basis"].upper()
            run_case(p, name, c0, params, variants[(k + s) % len(variants)], model_seed=(None if k == 0 else rnd.randint(1, 10 ** 6)))
        # time-limit schedules: the k-th solver call (and only it / it and all later ones) runs out of time
        params = dict(basis=rnd.choice(["XAIG", "AIG", "FULL"]), enable_validation=True, solver_time_limit_sec=rnd.choice([1, 7]))
        run_case(p, name, c0, params, "canonical", schedule=set())
        n_calls = getattr(minimize, "calls", 0)
        p.count("solver_calls_under_schedule", n_calls)
        for k in range(min(n_calls, 6 if thorough else 4)):
            run_case(p, name, c0, params, "canonical", schedule={k})
            if k and (thorough or k == 1):
                run_case(p, name, c0, params, "canonical", schedule=set(range(k, n_calls)))


def run(rep, tier, seed, only=None):
    symeval.install()
    thorough = tier == "thorough"
    rep.functions = ["minimization.subcircuit.minimize_subcircuits / _get_subcircuits / _eval_dont_cares / _Subcircuit.evaluate_truth_table_with_dont_cares / _PatternOperations / _rename_subcircuit_gates / _get_internal_gates",
                     "Circuit.replace_subcircuit", "CircuitFinderSat (time-limited path)", "build_miter + is_circuit_satisfiable (validation)"]
    rep.bounds = {"circuits": "special redundant circuits + seeded binary circuits over the 11 supported types, <=4 inputs, <=7 (quick) / <=9 (thorough) base gates plus redundancy",
                  "parameters": "basis AIG/XAIG/FULL (str), max_subcircuit_size {2,4,9}, cut_size {2,3,5} (+ 6 on six-leaf cones), cut_limit {2,25}, time limit {15} quick / {1,15} thorough",
                  "cut families": "canonical, reversed, shuffled(seed), truncated(2)", "solver models": "z3's own model + random-phase models under 40 (quick) / 200 (thorough) seeds on cones with complementary outputs, one random seed per seeded case", "time-limit schedules": "no call, exactly the k-th call (k<4 quick / <6 thorough), every call from the k-th on times out (environment stub of pebble's time-limited future)", "hash seeds": "the runner's own PYTHONHASHSEED (quick); subprocess per seed 0..3 (thorough)"}
    rep.outside = ["hash seeds other than those run", "circuits with functionally equivalent gates: internal errors there are counted, not alarmed (the property excludes them)"]
    rep.rule = "program = (circuit, parameter setting, cut family); equivalence decided by z3 over all inputs"
    rep.explanation = "translation validation of each minimize_subcircuits call"
    if thorough and not os.environ.get("VERIF_C04_CHILD"):
        # hash-seed dependence: list(set(cut)) fixes leaf order; re-run a slice under several seeds
        for hs in (0, 1, 2, 3):
            env = dict(os.environ, PYTHONHASHSEED=str(hs), VERIF_C04_CHILD="1", VERIF_SEED=str(seed * 10 + hs))
            r = subprocess.run([sys.executable, "-m", "checks.c04_child"], cwd=os.path.dirname(os.path.dirname(os.path.abspath(__file__))),
                               env=env, capture_output=True, text=True, timeout=3000)
            import pickle, base64

            try:
                part = pickle.loads(base64.b64decode(r.stdout.strip().split("\n")[-1]))
                rep.merge(part)
                rep.count(f"hash_seed_{hs}_cases", part.cases)
            except Exception as e:  # noqa: BLE001
                rep.error(f"hash-seed child {hs} failed: {e}: {r.stderr[-500:]}")
    sweep = [("models", name, basis, lo, lo + 10) for name in MODEL_SWEEP for basis in ("AIG", "XAIG", "FULL") for lo in range(1, 201 if thorough else 41, 10)]
    sweep += [("six", k) for k in (range(6) if thorough else (0, 3, 5))]
    rep.pmap(unit, sweep + [seed * 61 + s for s in range(32 if thorough else 16)], may_fork=True)
