"""C15 — evaluation under partial assignments is sound and monotone.

Three-valued symbolic state per input (3^n assignments at once), a symbolic
refinement A' of A (covers completions), symbolic gate types on the systematic
family.  Real operators / evaluators run on z3 guarded unions.
"""
import random

import z3

from vlib import circ, circgen, forkexec, symeval
from vlib.symeval import SymState, lift, zb
from checks.common import REPLAY_PRELUDE

PATH_LIMIT_HITS = [0]  # per worker process

LEVEL = "other"
TECHNIQUE = "bounded SMT: three-valued z3 proxies through the real operators/evaluators; refinement/monotonicity validity queries"
USES_STUBS = True

from cirbo.core.circuit import gate as G  # noqa: E402
from cirbo.core.circuit.operators import Undefined, _Undefined  # noqa: E402

TYPES = {t.name: t for t in circgen.ALL_TYPES}


def tv_var(name):
    """Fresh three-valued symbolic state: returns (SymState, z3 defined?, z3 value)."""
    t, u = z3.Bool(name + "_t"), z3.Bool(name + "_u")
    return SymState(z3.And(t, z3.Not(u)), u)


def refines(a, b):
    """A ⊑ A': wherever a is defined, b is the same value."""
    return z3.Implies(z3.Not(zb(a.u)), z3.And(z3.Not(zb(b.u)), zb(b.t) == zb(a.t)))


def defined(s):
    return z3.Not(zb(s.u))


def mono_violation(va, vb):
    """va defined but vb differs (or is undefined)."""
    va, vb = lift(va), lift(vb)
    return z3.And(defined(va), z3.Or(zb(vb.u), zb(vb.t) != zb(va.t)))


def conc(v):
    return "Undefined" if isinstance(v, _Undefined) else repr(bool(v))


def operator_lemma(p, item, tier, seed):
    tname, k = item
    t = TYPES[tname]
    A = [tv_var(f"a{i}") for i in range(k)]
    B = [tv_var(f"b{i}") for i in range(k)]
    pre = [refines(a, b) for a, b in zip(A, B)]
    total = [defined(a) for a in A]
    # one path normally; if the operator branches on its operands every feasible branch is explored
    paths, stats = forkexec.explore(lambda: (lift(t.operator(*A)), lift(t.operator(*B))), catch=(Exception,), max_paths=20000)
    p.case(("oplemma3", tname, k), sample=f"{tname}/{k}: A ⊑ A' ∧ op(A) defined ⇒ op(A') = op(A); A total ⇒ op(A) defined ({stats['paths']} path(s))")
    if not stats["covered"]:
        p.error(f"operator {tname}/{k}: path coverage not proven")
    for path in paths:
        pc = path.cond()
        if path.exc is not None:
            r, m = p.check([pc], label=f"raise {tname}/{k}")
            r2, m2 = "unsat", None
        else:
            ra, rb = path.result
            r, m = p.check(pre + [pc, mono_violation(ra, rb)], label=f"mono {tname}/{k}")
            r2, m2 = p.check(total + [pc, zb(ra.u)], label=f"total {tname}/{k}")
        if r == "sat" or r2 == "sat":
            mm = m if r == "sat" else m2
            av = [symeval.state_value(mm, a) for a in A]
            bv = [symeval.state_value(mm, b) for b in B] if r == "sat" else av
            p.violation(
                f"operator3:{tname}:arity{k}",
                f"{tname}: op({[conc(x) for x in av]}) vs refinement op({[conc(x) for x in bv]}) breaks soundness/monotonicity/totality",
                REPLAY_PRELUDE + "from cirbo.core.circuit import gate as G\n"
                f"A=[{', '.join(conc(x) for x in av)}]\nB=[{', '.join(conc(x) for x in bv)}]\n"
                f"try:\n    ra=G.{tname}.operator(*A); rb=G.{tname}.operator(*B)\nexcept Exception as e:\n    print(repr(e)); sys.exit(1)\nprint(ra, rb)\n"
                "total=all(x!=Undefined for x in A)\n"
                "bad=(ra!=Undefined and (rb==Undefined or rb is not ra)) or (total and ra==Undefined)\n"
                "sys.exit(1 if bad else 0)\n",
            )
            return
    if len(paths) == 1 and paths[0].exc is None and t not in circgen.CONST and k > 0:
        # canary: the converse (A' defined ⇒ A equal) must be refutable for non-constant operators
        ra, rb = paths[0].result
        r3, _ = p.check(pre + [mono_violation(rb, ra)], label="canary")
        p.canary(r3 == "sat")


def _circuit_queries(p, name, c, extra_constraints=(), describe=None, rebuild=None, build_src=None):
    """Soundness/monotonicity/totality of the three entry points on circuit c."""
    A = {lab: tv_var(f"A{i}") for i, lab in enumerate(c.inputs)}
    B = {lab: tv_var(f"B{i}") for i, lab in enumerate(c.inputs)}
    pre = list(extra_constraints) + [refines(A[l], B[l]) for l in c.inputs]
    def build():
        dis, tot = [], []
        for entry in ("evaluate_full_circuit", "evaluate_circuit", "evaluate_circuit_outputs"):
            arg = dict(A)
            fa = getattr(c, entry)(arg)
            if set(arg) != set(A) or any(arg[k] is not A[k] for k in A):
                # a reused assignment would carry stale values into the next, more defined, evaluation
                dis.append((entry + ":writes-into-the-assignment-argument", None, z3.BoolVal(True)))
            fb = getattr(c, entry)(dict(B))
            for lab in fa:
                va, vb = fa[lab], fb.get(lab, Undefined)
                unreached = entry == "evaluate_circuit" and isinstance(va, _Undefined) and lab not in c.inputs
                if unreached:
                    continue  # documented: part unreachable from outputs stays Undefined
                dis.append((entry, lab, mono_violation(va, vb)))
                tot.append((entry, lab, zb(lift(va).u)))
            if entry == "evaluate_circuit_outputs" and set(fa) != set(c.outputs):
                dis.append((entry + ":keys", None, z3.BoolVal(True)))
        # one gate asked for explicitly (an internal one included): the value of the whole-circuit evaluation
        labs = [l for l in c.gates if l not in c.inputs]
        full_a = c.evaluate_full_circuit(dict(A))
        for lab in (labs[:1] + labs[-1:]) if len(labs) > 2 else labs:
            sa, sb = c.evaluate_circuit(dict(A), outputs=[lab]), c.evaluate_circuit(dict(B), outputs=[lab])
            if lab not in sa or lab not in sb:
                dis.append(("evaluate_circuit(outputs=[g]):keys", lab, z3.BoolVal(True)))
                continue
            dis.append(("evaluate_circuit(outputs=[g])", lab, mono_violation(sa[lab], sb[lab])))
            dis.append(("evaluate_circuit(outputs=[g]):differs-from-whole-circuit", lab, symeval.states_differ(lift(sa[lab]), lift(full_a[lab]))))
            tot.append(("evaluate_circuit(outputs=[g])", lab, zb(lift(sa[lab]).u)))
        # unassigned inputs default to Undefined: dropping a key == passing Undefined
        for drop in c.inputs[:3]:
            A2 = {l: (A[l] if l != drop else SymState(False, True)) for l in c.inputs}
            A3 = {l: A[l] for l in c.inputs if l != drop}
            f2, f3 = c.evaluate_full_circuit(dict(A2)), c.evaluate_full_circuit(dict(A3))
            l2, l3 = c.evaluate_circuit(dict(A2)), c.evaluate_circuit(dict(A3))
            for lab in c.gates:
                for x, y, nm in ((f2, f3, "evaluate_full_circuit"), (l2, l3, "evaluate_circuit")):
                    if lab not in x or lab not in y:
                        dis.append((nm + ":default-undefined:keys", lab, z3.BoolVal(True)))
                    else:
                        dis.append((nm + ":default-undefined", lab, symeval.states_differ(x[lab], y[lab])))
        return dis, tot

    try:
        if PATH_LIMIT_HITS[0] >= 3:
            # the evaluator of this tree branches on gate values at every gate: deciding circuits by forking is hopeless
            p.queries["unknown"] += 1
            return True
        paths, stats = forkexec.explore(build, catch=(), max_paths=512, max_seconds=20)
    except forkexec.PathLimit:
        PATH_LIMIT_HITS[0] += 1
        p.queries["unknown"] += 1
        p.inconclusive.append(f"{name}: the evaluator branches on gate values more than 512 ways (or 20 s of paths) on {describe or circ.describe(c)}")
        return True
    except Exception as e:  # noqa: BLE001 - the evaluator itself raised on symbolic three-valued inputs
        p.violation(f"partial:evaluation-raises:{type(e).__name__}:{name.split('[')[0]}",
                    f"evaluating {describe or circ.describe(c)} under a partial assignment raised {type(e).__name__}: {e}",
                    REPLAY_PRELUDE + (build_src or circ.circ_src(c)) + "\nimport itertools\nbad=[]\n"
                    "for vals in itertools.product((False, True, Undefined), repeat=len(c.inputs)):\n"
                    "    A=dict(zip(c.inputs, vals))\n"
                    "    for entry in ('evaluate_full_circuit','evaluate_circuit','evaluate_circuit_outputs'):\n"
                    "        try:\n            getattr(c,entry)(dict(A))\n        except Exception as e:\n            bad.append((entry, type(e).__name__)); break\n"
                    "    if bad: break\nprint(bad); sys.exit(1 if bad else 0)\n")
        return False
    if len(paths) == 1:
        dis, tot = paths[0].result
    else:
        p.count('circuits_evaluated_on_several_paths')
        dis = [(d[0], d[1], z3.And(pp.cond(), d[2])) for pp in paths for d in pp.result[0]]
        tot = [(d[0], d[1], z3.And(pp.cond(), d[2])) for pp in paths for d in pp.result[1]]
    p.case(("c15", describe or circ.snapshot(c)[:3]), sample=f"{name}: {describe or circ.describe(c)}")
    r, m = p.check(pre + [z3.Or(*[d[2] for d in dis])], label=f"mono {name}")
    kind = "monotone"
    if r != "sat":
        total_pre = list(extra_constraints) + [defined(A[l]) for l in c.inputs]
        r, m = p.check(total_pre + [z3.Or(*[d[2] for d in tot])] if tot else [z3.BoolVal(False)], label=f"total {name}")
        kind = "total"
    if r == "sat":
        cc = rebuild(m) if rebuild else c
        av = {l: symeval.state_value(m, A[l]) for l in c.inputs}
        bv = {l: symeval.state_value(m, B[l]) for l in c.inputs} if kind == "monotone" else dict(av)
        bad = [(d[0], d[1]) for d in (dis if kind == "monotone" else tot) if symeval.model_bool(m, d[2])]
        p.violation(
            f"partial:{kind}:{bad[0][0].split(':')[0] if bad else '?'}:{name.split('[')[0]}",
            f"{kind} violated at {bad[:2]} for {circ.describe(cc)} with A={ {k: conc(v) for k, v in av.items()} } A'={ {k: conc(v) for k, v in bv.items()} }",
            REPLAY_PRELUDE + (build_src or circ.circ_src(cc))
            + "\nA={" + ", ".join(f"{k!r}: {conc(v)}" for k, v in av.items()) + "}\n"
            + "B={" + ", ".join(f"{k!r}: {conc(v)}" for k, v in bv.items()) + "}\n"
            + "bad=[]\n"
            "for entry in ('evaluate_full_circuit','evaluate_circuit','evaluate_circuit_outputs'):\n"
            "    arg=dict(A); getattr(c,entry)(arg)\n"
            "    if arg!=A: bad.append((entry,'writes into the assignment argument'))\n"
            "    fa=getattr(c,entry)(dict(A)); fb=getattr(c,entry)(dict(B))\n"
            "    total=all(v!=Undefined for v in A.values())\n"
            "    for k,va in fa.items():\n"
            "        vb=fb[k]\n"
            "        if va!=Undefined and (vb==Undefined or vb is not va): bad.append((entry,k,'mono'))\n"
            "        reached = entry!='evaluate_circuit' or va!=Undefined\n"
            "        if total and va==Undefined and entry!='evaluate_circuit': bad.append((entry,k,'total'))\n"
            "for drop in list(A):\n"
            "    A2=dict(A); A2[drop]=Undefined; A3={k:v for k,v in A.items() if k!=drop}\n"
            "    if c.evaluate_full_circuit(A2)!=c.evaluate_full_circuit(A3): bad.append(('default-undefined full',drop))\n"
            "    if c.evaluate_circuit(A2)!=c.evaluate_circuit(A3): bad.append(('default-undefined lazy',drop))\n"
            "fullA=c.evaluate_full_circuit(dict(A))\n"
            "for g in [l for l in c.gates if l not in c.inputs]:\n"
            "    sa=c.evaluate_circuit(dict(A), outputs=[g]); sb=c.evaluate_circuit(dict(B), outputs=[g])\n"
            "    if g not in sa or sa[g]!=fullA[g] or (sa[g]!=Undefined and sb.get(g) is not sa[g]): bad.append(('evaluate_circuit(outputs=[g])', g))\n"
            "# total assignment: evaluated gates of the lazy evaluator are those reached from outputs\n"
            "if all(v!=Undefined for v in A.values()):\n"
            "    lz=c.evaluate_circuit(dict(A))\n"
            "    for o in c.outputs:\n"
            "        if lz[o]==Undefined: bad.append(('evaluate_circuit','total',o))\n"
            "print(bad)\nsys.exit(1 if bad else 0)\n",
        )
        return False
    return True


def systematic(p, item, tier, seed):
    n_in, topo_list = item
    for topo in topo_list:
        inputs = [f"x{i}" for i in range(n_in)]
        nodes = list(inputs)
        sels, cands_all, gates, cons = [], [], [], []
        for j, ops in enumerate(topo):
            k = len(ops)
            cands = circgen.types_for_arity(k)
            sel = z3.Int(f"sel{j}")
            cons.append(z3.And(sel >= 0, sel < len(cands)))
            gates.append((f"g{j}", symeval.make_sym_gate_type(f"SYM{j}", cands, sel), tuple(nodes[o] for o in ops)))
            sels.append(sel)
            cands_all.append(cands)
            nodes.append(f"g{j}")
        outs = [nodes[-1]] if len(nodes) else []
        c = circgen.build(inputs, gates, outs)

        def rebuild(m, gates=gates, sels=sels, cands_all=cands_all, inputs=inputs, outs=outs):
            chosen = [cands[m.eval(sel, model_completion=True).as_long()] for sel, cands in zip(sels, cands_all)]
            return circgen.build(inputs, [(g[0], t, g[2]) for g, t in zip(gates, chosen)], outs)

        n_lab = 1
        for cc in cands_all:
            n_lab *= len(cc)
        p.count("type_labellings_covered", n_lab)
        ok = _circuit_queries(p, "systematic", c, cons, describe=f"inputs={n_in} operands={topo} outputs={outs} symbolic types", rebuild=rebuild)
        if not ok:
            return


def concrete(p, item, tier, seed):
    kind, arg = item
    if kind == "history":
        from checks.c01 import history_circuit

        rnd = random.Random(arg)
        for i in range(25 if tier == "quick" else 80):
            c, src = history_circuit(rnd, f"{arg}:{i}")
            if c is not None and 0 < len(c.inputs) <= 5:
                _circuit_queries(p, f"history[{arg}:{i}]", c, build_src=src)
    elif kind == "feature":
        for name, c in circgen.feature_circuits():
            _circuit_queries(p, "feature:" + name, c)
    else:
        s, count, maxg, maxi = arg
        rnd = random.Random(s)
        for i in range(count):
            c = circgen.random_circuit(rnd, rnd.randint(1, maxi), rnd.randint(1, maxg), max_arity=rnd.choice([2, 3, 4]),
                                       shuffle_storage=bool(i % 2))
            _circuit_queries(p, f"seeded[{s}:{i}]", c)


def _chunks(lst, n):
    for i in range(0, len(lst), n):
        yield lst[i:i + n]


COPIED_SRC = """
def copied_undefined_problems(which):
    # an Undefined that went through copy.deepcopy / pickle (e.g. a deep-copied assignment) is still Undefined
    import copy, pickle, itertools
    from cirbo.core.circuit.operators import Undefined
    from vlib import circgen
    copies = [copy.deepcopy(Undefined), pickle.loads(pickle.dumps(Undefined))]
    bad = []
    if which == 'operators':
        for t in circgen.ALL_TYPES:
            ars = [0] if t in circgen.CONST else [1] if t in circgen.UNARY else [2] if t in circgen.BINARY_ONLY else [2, 3, 4]
            for k in ars:
                for vals in itertools.product((False, True, None), repeat=k):
                    a = [Undefined if v is None else v for v in vals]
                    ra = t.operator(*a)
                    for U in copies:
                        rb = t.operator(*[U if v is None else v for v in vals])
                        if not ((ra == Undefined and rb == Undefined) or (ra is rb)):
                            bad.append((t.name, vals, str(ra), str(rb)))
        return bad[:5]
    for name, c in circgen.feature_circuits():
        if name != which:
            continue
        for vals in itertools.product((False, True, None), repeat=min(len(c.inputs), 4)):
            vals = list(vals) + [None] * (len(c.inputs) - len(vals))
            A = {l: (Undefined if v is None else v) for l, v in zip(c.inputs, vals)}
            for U in copies:
                B = copy.deepcopy(A) if U is copies[0] else pickle.loads(pickle.dumps(A))
                for entry in ('evaluate_full_circuit', 'evaluate_circuit', 'evaluate_circuit_outputs'):
                    fa, fb = getattr(c, entry)(dict(A)), getattr(c, entry)(dict(B))
                    for k in fa:
                        if not ((fa[k] == Undefined and fb.get(k) == Undefined) or (fa[k] is fb.get(k))):
                            bad.append((entry, k, vals))
                            break
                if bad:
                    return bad[:3]
    return bad
"""
exec(COPIED_SRC)  # noqa: S102


def copied_undefined_unit(p, item, tier, seed):
    p.case(("copied-undefined", item), sample=f"copied Undefined objects through {item}" if len(p.samples) < 2 else None)
    try:
        bad = copied_undefined_problems(item)  # noqa: F821
    except Exception as e:  # noqa: BLE001
        bad = [f"raised {type(e).__name__}: {e}"]
    p.queries["sat" if bad else "unsat"] += 1
    if bad:
        p.violation(f"partial:copied-undefined:{'operator' if item == 'operators' else 'circuit'}", f"an Undefined that is a copy of the constant is treated differently: {bad[:3]}",
                    REPLAY_PRELUDE + COPIED_SRC + f"\nbad=copied_undefined_problems({item!r})\nprint(bad); sys.exit(1 if bad else 0)\n")


def run(rep, tier, seed, only=None):
    symeval.install()
    thorough = tier == "thorough"
    rep.functions = ["operators.* (three-valued tables, folds)", "Circuit.evaluate_full_circuit", "Circuit.evaluate_circuit",
                     "Circuit.evaluate_circuit_outputs", "Circuit.top_sort"]
    rep.bounds = {"operator arity": "<= 6", "systematic (symbolic types)": "<=3 inputs, <=3 gates, arities 0-2 (quick sample), 0-3 thorough",
                  "seeded": "<=5 inputs, <=10 gates"}
    rep.outside = ["Kleene-optimality (completeness) is not claimed by the property: gt_(Undefined, True) is Undefined, allowed",
                   "assignments that put values on internal gates"]
    rep.bounds['copied Undefined'] = 'all operators (arity <= 4) and 5 feature circuits with Undefined objects that went through deepcopy / pickle (concrete differential)'
    rep.rule = "cases = operator lemmas + circuits (systematic topologies with symbolic types, feature, seeded); 3^n partial assignments and all refinements quantified by z3"
    rep.explanation = ("z3 decides for all 3^n partial assignments A and all refinements A' (hence all completions) that defined results are preserved, "
                       "and that total assignments give defined values; gate types symbolic on systematic family.")
    sub = lambda n: only is None or only in n  # noqa: E731
    if sub("oplemma"):
        items = []
        for t in circgen.ALL_TYPES:
            ar = [1] if t in circgen.UNARY else [2] if t in circgen.BINARY_ONLY else list(range(2, 7)) if t in circgen.NARY else [0, 1, 2]
            items += [(t.name, k) for k in ar]
        rep.pmap(operator_lemma, items, chunksize=2)
    if sub("feature"):
        rep.pmap(concrete, [("feature", None)])
    if sub("copied"):
        rep.pmap(copied_undefined_unit, ["operators"] + [n for n, _ in circgen.feature_circuits() if n in ("lnot_riff_chain", "not_chain_into_symmetric", "shared_fanout", "long_buffer_chain", "deepcopied_mixed_types")])
    if sub("seeded"):
        rep.pmap(concrete, [("seeded", (seed * 977 + s, 40 if thorough else 10, 10, 5)) for s in range(32 if thorough else 16)])
    if sub("history"):
        rep.pmap(concrete, [("history", seed * 313 + s) for s in range(32 if thorough else 16)])
    if sub("systematic"):
        rnd = random.Random(seed)
        plan = ([(1, 3, (0, 1, 2, 3)), (2, 3, (0, 1, 2, 3)), (3, 3, (1, 2))] if thorough
                else [(1, 2, (0, 1, 2, 3)), (2, 2, (0, 1, 2)), (2, 3, (1, 2)), (3, 2, (1, 2))])
        work = []
        for n_in, n_g, ar in plan:
            topos = list(circgen.systematic_topologies(n_in, n_g, ar))
            cap = 100000 if thorough else 600
            if len(topos) > cap:
                rep.note(f"systematic n_in={n_in} n_gates={n_g}: seeded sample {cap} of {len(topos)} topologies")
                topos = rnd.sample(topos, cap)
            for ch in _chunks(topos, 25):
                work.append((n_in, ch))
        rep.pmap(systematic, work)
