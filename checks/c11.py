"""C11 — bench text round-trips and the parser is faithful.

(a) the real line classifier / splitter / dispatcher of the bench parser is executed on
    *symbolic lines* (symbolic identifier characters, symbolic letter case of operator
    names) by the forking executor; per path z3 decides that the recorded gate is the one
    the text denotes;
(b) round trip format -> parse (string and file) on a circuit family x label alphabet;
(c) denotation of textual layouts (declaration orders, use before definition, comments,
    blank lines, BUFF / vdd aliases) compared with the reference semantics by z3.
"""
import itertools
import os
import random
import tempfile

import z3

from vlib import circ, circgen, forkexec, refsem, symeval
from vlib.symstr import SymStr, identifier_constraints
from checks.common import REPLAY_PRELUDE

LEVEL = "translation_validation"
TECHNIQUE = "forking symbolic execution of the real bench line parser on symbolic text (z3 path feasibility/coverage) + translation validation of parsed circuits (z3 equivalence with the denotation of the text)"
USES_STUBS = True

from cirbo.core.circuit import Circuit, gate as G  # noqa: E402
from cirbo.core.parser.bench import BenchToCircuit  # noqa: E402

OPS = {  # operator text -> (gate type, arities)
    "NOT": (G.NOT, [1]), "BUFF": (G.IFF, [1]), "IFF": (G.IFF, [1]), "AND": (G.AND, [2, 3]), "NAND": (G.NAND, [2]), "OR": (G.OR, [2, 3]), "NOR": (G.NOR, [2]),
    "XOR": (G.XOR, [2, 3]), "NXOR": (G.NXOR, [2]), "GEQ": (G.GEQ, [2]), "GT": (G.GT, [2]), "LEQ": (G.LEQ, [2]), "LT": (G.LT, [2]),
    "LNOT": (G.LNOT, [2]), "RNOT": (G.RNOT, [2]), "LIFF": (G.LIFF, [2]), "RIFF": (G.RIFF, [2]),
}


class SymDispatch(dict):
    """The parser's operator table; a symbolic operator string is matched entry by entry."""

    def __getitem__(self, key):
        if isinstance(key, SymStr):
            for name, fn in self.items():
                if key == name:
                    return fn
            raise KeyError("<symbolic operator>")
        return dict.__getitem__(self, key)


class RecCircuit:
    def __init__(self):
        self.gates, self._outputs = [], []

    def _emplace_gate(self, label, gate_type, operands=()):
        self.gates.append((label, gate_type, tuple(operands)))


def parse_symbolic(line):
    p = BenchToCircuit()
    p._processings = SymDispatch(p._processings)
    p._circuit = RecCircuit()
    list(p._process_line(line))
    return p._circuit


def sym_case(op):
    """Operator name with symbolic letter case: (SymStr, constraints)."""
    chars, cons = [], []
    for i, ch in enumerate(op):
        c = z3.Int(f"op_{i}")
        cons.append(z3.Or(c == ord(ch.upper()), c == ord(ch.lower())))
        chars.append(c)
    return SymStr(chars), cons


def line_unit(p, item, tier, seed):
    kind, arg = item
    templates = []
    if kind == "gate":
        op, ar, llen, spacing = arg
        label = SymStr.fresh("lab", llen)
        operands = [SymStr.fresh(f"a{k}", 1 + (k % 2)) for k in range(ar)]
        ops, cons = sym_case(op)
        cons += identifier_constraints(label) + [c for o in operands for c in identifier_constraints(o)]
        sp = {"canonical": (" = ", "(", ", ", ")"), "tight": ("=", "(", ",", ")"), "loose": ("  =  ", " ( ", " , ", " )"), "newline": (" = ", "(", ", ", ")\n")}[spacing]
        line = label + sp[0] + ops + sp[1]
        for k, o in enumerate(operands):
            line = line + (sp[2] if k else "") + o
        line = line + sp[3]
        expect = ("gate", label, OPS[op][0], operands)
        desc = f"<label:{llen}>{sp[0]}{op}{sp[1]}...{sp[3]!r} ({ar} operands, symbolic case)"
    elif kind == "decl":
        word, llen, nl = arg
        label = SymStr.fresh("lab", llen)
        cons = identifier_constraints(label)
        line = word + "(" + label + ")" + ("\n" if nl else "")
        expect = ("input" if word == "INPUT" else "output", label)
        desc = f"{word}(<label:{llen}>)"
    elif kind == "vdd":
        llen, text = arg
        label = SymStr.fresh("lab", llen)
        cons = identifier_constraints(label)
        line = label + " = " + text
        expect = ("gate", label, G.ALWAYS_TRUE, [])
        desc = f"<label:{llen}> = {text}"
    elif kind == "const":
        llen, op = arg
        label = SymStr.fresh("lab", llen)
        cons = identifier_constraints(label)
        ops, c2 = sym_case(op)
        cons += c2
        line = label + " = " + ops + "()"
        expect = ("gate", label, getattr(G, op), [])
        desc = f"<label:{llen}> = {op}()"
    else:  # comment / blank
        n = arg
        body = SymStr.fresh("c", n)
        cons = [z3.And(c >= 32, c <= 126) for c in body.chars]
        line = "#" + body
        expect = ("nothing",)
        desc = f"#<{n} arbitrary printable characters>"

    paths, stats = forkexec.explore(lambda: parse_symbolic(line), base=cons, max_paths=5000, catch=(Exception,))
    p.case(("line", kind, repr(arg)), sample=f"symbolic line {desc}: {stats['paths']} paths, coverage proven={stats['covered']}" if len(p.samples) < 6 else None)
    p.count("line_paths", stats["paths"])
    if stats["covered"]:
        p.queries["unsat"] += 1
    else:
        p.error(f"path coverage not proven for {item}")
    if kind == "gate" and arg == ("AND", 2, 1, "canonical") and paths and paths[0].exc is None and paths[0].result.gates:
        # canary (vacuity guard): against a wrong expectation (operands swapped) the query must be sat
        lab, _, ops_ = paths[0].result.gates[0]
        r, _ = p.check([*cons, paths[0].cond(), z3.Not(z3.And(*[SymStr.lift(a).eq_term(b) for a, b in zip(ops_, operands[::-1])]))], label="canary")
        p.canary(r == "sat")
    for path in paths:
        pc = [*cons, path.cond()]
        if path.exc is not None:
            wrong = z3.BoolVal(True)
            what = f"raised {type(path.exc).__name__}: {path.exc}"
        else:
            rc = path.result
            what = f"recorded gates={[(str(l), t.name, len(o)) for l, t, o in rc.gates]} outputs={len(rc._outputs)}"
            if expect[0] == "nothing":
                wrong = z3.BoolVal(bool(rc.gates or rc._outputs))
            elif expect[0] == "output":
                ok = len(rc._outputs) == 1 and not rc.gates
                wrong = z3.Not(SymStr.lift(rc._outputs[0]).eq_term(expect[1])) if ok else z3.BoolVal(True)
            else:
                etype = G.INPUT if expect[0] == "input" else expect[2]
                eops = [] if expect[0] == "input" else expect[3]
                ok = len(rc.gates) == 1 and not rc._outputs and rc.gates[0][1] == etype and len(rc.gates[0][2]) == len(eops)
                if ok:
                    lab, _, ops_ = rc.gates[0]
                    wrong = z3.Not(z3.And(SymStr.lift(lab).eq_term(expect[1]), *[SymStr.lift(a).eq_term(b) for a, b in zip(ops_, eops)]))
                else:
                    wrong = z3.BoolVal(True)
        r, m = p.check(pc + [wrong], label=f"line {kind}")
        if r == "sat":
            text = line.concretize(m)
            exp_label = expect[1].concretize(m) if len(expect) > 1 else None
            p.violation(f"parser-line:{kind}:{'keyword-prefixed-label' if exp_label and exp_label.upper().startswith(('INPUT', 'OUTPUT')) else 'other'}",
                        f"line {text!r} is not parsed as it reads ({what}); expected {expect[0]} {exp_label!r}",
                        REPLAY_PRELUDE + "from cirbo.core.circuit import Circuit\n"
                        f"text={text!r}\nkind={expect[0]!r}; label={exp_label!r}\n"
                        "wrap = 'INPUT(x)\\nINPUT(y)\\nINPUT(xy)\\nINPUT(z)\\n' if kind not in ('input','output') else 'q = NOT(' + label + ')\\n' if kind=='output' else ''\n"
                        "try:\n    c=Circuit.from_bench_string(wrap.replace('INPUT('+str(label)+')\\n','') + text + '\\n')\n"
                        "    if kind=='input': ok = label in c.inputs\n"
                        "    elif kind=='output': ok = list(c.outputs)==[label]\n"
                        "    elif kind=='nothing': ok = not c.gates\n"
                        "    else: ok = label in c.gates and c.gates[label].gate_type.name!='INPUT'\n"
                        "except Exception as e:\n    print(type(e).__name__, e); ok=False\nprint(ok); sys.exit(0 if ok else 1)\n")
            return


# ----------------------------------------------------------------- (b) (c)
LABELS = ["input1", "INPUT_x", "OUTPUTx", "output", "Input", "vddq", "vdd", "VDD1", "not", "buff", "AND", "x", "X", "a1", "1", "0", "9z", "s3", "_", "new_1f", "In", "Out_put",
          "INPUTS", "inputoutput", "blk@s", "a@b@c", "@", "x.y", "n[3]", "\u00e9t\u00e9"]


def relabel(c, rnd):
    labs = list(c.gates)
    pool = rnd.sample(LABELS, min(len(LABELS), len(labs)))
    new = {}
    for i, l in enumerate(labs):
        new[l] = pool[i] if i < len(pool) else f"g{i}"
    gates = [(new[l], c.gates[l].gate_type, tuple(new[o] for o in c.gates[l].operands)) for l in labs if c.gates[l].gate_type != G.INPUT]
    order = [new[l] for l in labs]
    rnd.shuffle(order)
    return circgen.build([new[i] for i in c.inputs], gates, [new[o] for o in c.outputs], order)


def expressible(c):
    """Expressible in bench text: constants carry no operands and every label is a bench identifier."""
    return (all(not (g.gate_type in circgen.CONST and g.operands) for g in c.gates.values())
            and all(l and not any(ch in l for ch in " \t\r\n(),=#") for l in c.gates))


REJECTED_SRC = """
def rejected_parse_first(c):
    # a text that is rejected in the middle (after declarations and some gates were read); the caller catches the error
    from cirbo.core.circuit import Circuit
    lines = c.format_circuit().splitlines()
    bad = lines[: max(1, len(lines) // 2)] + ['poison_gate = FROBNICATE(' + (list(c.gates)[0] if c.gates else 'q') + ')'] + lines[len(lines) // 2:]
    try:
        Circuit.from_bench_string('\\n'.join(bad) + '\\n')
    except Exception:
        pass
"""
exec(REJECTED_SRC)  # noqa: S102


PRINTED_THEN_EDITED = {
    # the circuit is printed once, edited in place through the public API, and printed again
    "replace_inputs": "c.format_circuit()\nc.replace_inputs(list(c.inputs)[:1], list(c.inputs)[1:2])\n",
    "into_bench": "c.format_circuit()\nc.into_bench()\n",
    "rename_gate": "c.format_circuit()\nc.rename_gate(list(c.gates)[-1], 'renamed_after_printing')\n",
    "reverse_outputs": "c.format_circuit()\nc.set_outputs(list(c.outputs)[::-1])\n",
    "reverse_inputs": "c.format_circuit()\nc.order_inputs(list(c.inputs)[::-1])\n",
}


def roundtrip_check(p, name, c, after_rejected=False, history=None):
    src = REPLAY_PRELUDE + "from cirbo.core.circuit import Circuit\nimport tempfile, os\n" + circ.circ_src(c) + "\n" + (REJECTED_SRC + "rejected_parse_first(c)\n" if after_rejected else "")
    if history is not None:
        from checks.mutators import rebuild

        c0, c = c, rebuild(c)
        src += PRINTED_THEN_EDITED[history]
        try:
            exec(PRINTED_THEN_EDITED[history], {"c": c})  # noqa: S102
        except Exception:  # noqa: BLE001
            return  # the edit itself is not applicable to this circuit
        if not expressible(c):
            return
    p.case(("roundtrip", circ.snapshot(c)[:3], after_rejected, history), sample=f"round trip {name}: {circ.describe(c)}" if len(p.samples) < 8 else None)
    if after_rejected:
        rejected_parse_first(c)  # noqa: F821
    body = ("bad=[]\ntry:\n    d=Circuit.from_bench_string(c.format_circuit())\n"
            "    if not (d==c) or circ.netlist_of(d)!=circ.netlist_of(c) or list(d.inputs)!=list(c.inputs) or list(d.outputs)!=list(c.outputs): bad.append('string round trip differs')\n"
            "    with tempfile.TemporaryDirectory() as t:\n        f=os.path.join(t,'sub','c.bench'); c.save_to_file(f); e=Circuit.from_bench_file(f)\n"
            "    if not (e==c): bad.append('file round trip differs')\n"
            "except Exception as ex:\n    bad.append((type(ex).__name__, str(ex)))\nprint(bad); sys.exit(1 if bad else 0)\n")
    bad = None
    try:
        d = Circuit.from_bench_string(c.format_circuit())
        if not (d == c) or circ.netlist_of(d) != circ.netlist_of(c) or list(d.inputs) != list(c.inputs) or list(d.outputs) != list(c.outputs):
            bad = f"string round trip differs: {circ.describe(d)}"
        else:
            with tempfile.TemporaryDirectory() as t:
                f = os.path.join(t, "sub", "c.bench")
                c.save_to_file(f)
                e = Circuit.from_bench_file(f)
            if not (e == c):
                bad = "file round trip differs"
            elif circ.wf_problems(d):
                bad = f"parsed circuit not well formed: {circ.wf_problems(d)[0]}"
    except Exception as ex:  # noqa: BLE001
        bad = f"{type(ex).__name__}: {ex}"
    if bad:
        kw = [l for l in c.gates if l.upper().startswith(("INPUT", "OUTPUT")) and c.gates[l].gate_type != G.INPUT]
        p.violation(f"roundtrip:{'keyword-prefixed-label' if kw else bad.split(' ')[0].split(':')[0]}{':after-a-rejected-parse' if after_rejected else ''}{':printed-then-' + history if history else ''}",
                    f"{circ.describe(c)}{' (parsed right after a text that was rejected mid-stream)' if after_rejected else ''}{' (printed once before ' + history + ')' if history else ''}: {bad}", src + body)


def layouts(c, rnd, count):
    """Textual layouts of the same netlist: (text, description)."""
    ins = [f"INPUT({l})" for l in c.inputs]
    outs = [f"OUTPUT({l})" for l in c.outputs]
    gl = []
    for l, g in c.gates.items():
        if g.gate_type == G.INPUT:
            continue
        name = g.gate_type.name
        if g.gate_type == G.IFF and rnd.random() < 0.7:
            name = "BUFF"
        name = rnd.choice([name, name.lower(), name.capitalize(), name])
        if g.gate_type == G.ALWAYS_TRUE and rnd.random() < 0.5:
            gl.append(f"{l} = {rnd.choice(['vdd', 'VDD', 'Vdd'])}")
        else:
            sep = rnd.choice([", ", ",", " , "])
            gl.append(f"{l}{rnd.choice([' = ', '=', '  =  '])}{name}({sep.join(g.operands)})")
    for k in range(count):
        # inputs keep their relative order (it defines the function's argument order), outputs too;
        # everything else may be interleaved and gate definitions permuted (use before definition)
        gs = list(gl)
        rnd.shuffle(gs)
        seq = [("i", x) for x in ins] + [("o", x) for x in outs]
        lines = []
        pools = {"i": list(ins), "o": list(outs), "g": gs}
        order = ["i"] * len(ins) + ["o"] * len(outs) + ["g"] * len(gs)
        rnd.shuffle(order)
        if k == 0:
            order = ["o"] * len(outs) + ["g"] * len(gs) + ["i"] * len(ins)
        for tag in order:
            lines.append(pools[tag].pop(0))
            r = rnd.random()
            if r < 0.15:
                lines.append("# a comment = AND(x, y)")
            elif r < 0.3:
                lines.append("")
        yield "\n".join(lines) + ("\n" if k % 2 else ""), f"layout {k}"


def denotation_check(p, name, c, rnd, count):
    nl = circ.netlist_of(c)
    for text, ldesc in layouts(c, rnd, count):
        p.case(("layout", text), sample=f"{name} {ldesc}:\n{text}" if len(p.samples) < 10 else None)
        src = (REPLAY_PRELUDE + "from cirbo.core.circuit import Circuit\nimport itertools\n" + circ.circ_src(c, "o") + f"\ntext={text!r}\n"
               "bad=[]\ntry:\n    d=Circuit.from_bench_string(text)\n"
               "    if list(d.inputs)!=list(o.inputs) or list(d.outputs)!=list(o.outputs): bad.append(('interface', d.inputs, d.outputs))\n"
               "    else:\n        for x in itertools.product((False,True), repeat=len(o.inputs)):\n"
               "            a=dict(zip(o.inputs,x)); e=ref_concrete(circ.netlist_of(o),a)\n"
               "            if list(d.evaluate(list(x)))!=[e[k] for k in o.outputs]: bad.append(('value',a)); break\n"
               "except Exception as ex:\n    bad.append((type(ex).__name__, str(ex)))\nprint(bad); sys.exit(1 if bad else 0)\n")
        bad = None
        try:
            d = Circuit.from_bench_string(text)
            if list(d.inputs) != list(c.inputs) or list(d.outputs) != list(c.outputs):
                bad = f"inputs/outputs {d.inputs}/{d.outputs} not in declaration order {c.inputs}/{c.outputs}"
            elif circ.wf_problems(d):
                bad = f"parsed circuit not well formed: {circ.wf_problems(d)[0]}"
            else:
                zs = {l: z3.Bool(f"x{i}") for i, l in enumerate(c.inputs)}
                ER = refsem.denote(nl, zs)
                ev = d.evaluate_circuit({l: symeval.SymState(v, False) for l, v in zs.items()})
                dis = []
                for ol in c.outputs:
                    s = symeval.lift(ev[ol])
                    dis.append(z3.Or(symeval.zb(s.u), symeval.zb(s.t) != ER[ol]))
                r, m = p.check([z3.Or(*dis)] if dis else [z3.BoolVal(False)], label="denotation")
                if r == "unsat" and dis and p.canaries_run < 1 and any(t != "INPUT" for t, _ in nl.values()):
                    o0 = c.outputs[0]
                    s0 = symeval.lift(ev[o0])
                    r2, _ = p.check([symeval.zb(s0.t) != z3.Not(ER[o0])], label="canary")
                    p.canary(r2 == "sat")
                if r == "sat":
                    bad = "parsed circuit computes something else than the text denotes"
        except Exception as ex:  # noqa: BLE001
            bad = f"{type(ex).__name__}: {ex}"
        if bad:
            kw = [l for l in c.gates if l.upper().startswith(("INPUT", "OUTPUT")) and c.gates[l].gate_type != G.INPUT]
            p.violation(f"denotation:{'keyword-prefixed-label' if kw else bad.split(' ')[0].split(':')[0]}", f"{bad}\n{text}", src)
            return


def same_path_check(p, name, c1, c2):
    """save c1, load, save c2 to the *same path*, load again: the second load must be c2."""
    p.case(("same-path", circ.snapshot(c1)[:3], circ.snapshot(c2)[:3]), sample=f"{name}: two circuits saved to one path in turn" if len(p.samples) < 12 else None)
    src = (REPLAY_PRELUDE + "from cirbo.core.circuit import Circuit\nimport tempfile, os\n" + circ.circ_src(c1, "c1") + "\n" + circ.circ_src(c2, "c2") +
           "\nwith tempfile.TemporaryDirectory() as t:\n    f=os.path.join(t,'c.bench')\n    c1.save_to_file(f); a=Circuit.from_bench_file(f)\n    c2.save_to_file(f); b=Circuit.from_bench_file(f)\n"
           "bad = not (a==c1) or not (b==c2)\nprint(bad); sys.exit(1 if bad else 0)\n")
    try:
        with tempfile.TemporaryDirectory() as t:
            f = os.path.join(t, "c.bench")
            c1.save_to_file(f)
            a = Circuit.from_bench_file(f)
            c2.save_to_file(f)
            b = Circuit.from_bench_file(f)
            a.rename_gate(next(iter(a.gates)), "__renamed__") if a.gates else None  # a loaded circuit is the caller's to edit
            b2 = Circuit.from_bench_file(f)
        bad = None if (b == c2 and b2 == c2) else "second load of the same path does not return the file's current content"
    except Exception as ex:  # noqa: BLE001
        bad = f"{type(ex).__name__}: {ex}"
    if bad:
        p.violation("roundtrip:same-path-twice", f"{bad}: {circ.describe(c1)} then {circ.describe(c2)}", src)


def family_unit(p, item, tier, seed):
    rnd = random.Random(item)
    fam = [(n, c) for n, c in circgen.feature_circuits() + circgen.large_circuits(item) if expressible(c)] if item % 8 == 0 else []
    if item % 8 == 0:
        # a bench text well beyond 64 KiB (files are read in one go or in chunks: every line must arrive)
        bench_pool = [G.NOT, G.AND, G.OR, G.XOR, G.NAND, G.NOR, G.NXOR]
        fam.append(("large-4000-gates-long-labels", circgen.large_circuit(random.Random(item + 77), 12, 4000, pool=bench_pool, max_arity=2, prefix="internal_signal_")))
    for i in range(25 if tier == "quick" else 60):
        c = circgen.random_circuit(rnd, rnd.randint(1, 4), rnd.randint(1, 8), max_arity=3, n_outputs=rnd.randint(1, 3), shuffle_storage=bool(i % 2))
        fam.append((f"seeded[{item}:{i}]", c))
    prev = None
    for name, c in fam:
        if prev is not None and expressible(prev) and expressible(c):
            same_path_check(p, name, prev, c)
        prev = c
        roundtrip_check(p, name, c)
        roundtrip_check(p, name, c, after_rejected=True)
        if len(c.gates) < 200:
            for h in PRINTED_THEN_EDITED:
                roundtrip_check(p, name + "/printed-then-" + h, c, history=h)
        rc = relabel(c, rnd)
        roundtrip_check(p, name + "/relabelled", rc)
        denotation_check(p, name, c if rnd.random() < 0.5 else rc, rnd, 3 if tier == "quick" else 6)


def run(rep, tier, seed, only=None):
    symeval.install()
    thorough = tier == "thorough"
    rep.functions = ["AbstractBenchParser._process_line / _parse_name_gate / _parse_operator_gate / _process_operator_gate / _processings",
                     "BenchToCircuit._process_input_gate / _process_output_gate / _process_* / _add_gate / _eof / convert_to_circuit",
                     "Circuit.from_bench_string / from_bench_file / format_circuit / save_to_file, Gate.format_gate"]
    rep.bounds = {"symbolic lines": "labels of 1..7 symbolic identifier characters ([A-Za-z0-9_], each character a z3 integer), operands 1..2 characters, every operator name with symbolic letter case, 4 spacings; INPUT/OUTPUT declarations; vdd alias; constants; comments of <=6 arbitrary printable characters",
                  "round trip / denotation": "feature family + seeded circuits <=4 inputs/<=8 gates, relabelled from a keyword-heavy alphabet, shuffled storage; 3 (quick) / 6 (thorough) textual layouts each"}
    rep.outside = ["whitespace-only lines, CRLF, duplicate definitions", "constants carrying operands (not expressible in the text format)", "labels longer than 7 characters in the symbolic part"]
    rep.bounds['histories'] = 'every round trip repeated right after a text that is rejected mid-stream; same path written and loaded twice'
    rep.rule = "cases = symbolic line templates (paths explored with proven coverage) + circuits through format/parse + textual layouts"
    rep.explanation = ("(a) every path of the real line parser over symbolic text is explored and z3 decides per path that the recorded gate equals what the text denotes; "
                       "(b,c) parsed circuits compared structurally / by z3 with the reference denotation")
    sub = lambda n: only is None or only in n  # noqa: E731
    if sub("line"):
        items = []
        lens = [1, 2, 5, 6, 7] if not thorough else [1, 2, 3, 4, 5, 6, 7, 8]
        for op, (t, ars) in OPS.items():
            for ar in ars:
                for llen in (lens if op in ("AND", "NOT", "XOR", "BUFF") else [1, 6]):
                    for spacing in (("canonical", "tight", "loose", "newline") if op in ("AND", "NOT") else ("canonical",)):
                        items.append(("gate", (op, ar, llen, spacing)))
        for word in ("INPUT", "OUTPUT"):
            for llen in range(1, 8):
                for nl in (False, True):
                    items.append(("decl", (word, llen, nl)))
        for llen in (1, 5, 6, 7):
            for text in ("vdd", "VDD", "Vdd"):
                items.append(("vdd", (llen, text)))
            for op in ("ALWAYS_TRUE", "ALWAYS_FALSE"):
                items.append(("const", (llen, op)))
        for n in range(0, 7):
            items.append(("comment", n))
        rep.pmap(line_unit, items)
    if sub("family"):
        rep.pmap(family_unit, [seed * 41 + s for s in range(32 if thorough else 16)])
