"""C13 — a miter is true exactly where the two circuits differ."""
import random

import z3

from vlib import circ, circgen, symeval
from checks.common import REPLAY_PRELUDE

LEVEL = "translation_validation"
TECHNIQUE = "translation validation: z3 validity of miter_out(x) <=> OR_i(left_i(x) != right_i(x)) on real-evaluator terms, inputs matched by position"
USES_STUBS = True

from cirbo.core.circuit import gate as G  # noqa: E402


def check_pair(p, name, left, right, **kw):
    from cirbo.sat import build_miter, is_circuit_satisfiable
    from cirbo.sat.exceptions import MiterDifferentShapesError

    sl, sr = circ.snapshot(left), circ.snapshot(right)
    shape_ok = len(left.inputs) == len(right.inputs) and len(left.outputs) == len(right.outputs)
    src = (REPLAY_PRELUDE + circ.circ_src(left, "left") + "\n" + circ.circ_src(right, "right") +
           "\nfrom cirbo.sat import build_miter, is_circuit_satisfiable\nfrom cirbo.sat.exceptions import MiterDifferentShapesError\nimport itertools\n"
           "from cirbo.synthesis.generation import generate_pairwise_xor\n"
           "for _n in (1, 2, 3):  # a caller that obtained the comparator gadget earlier and edited its own copy\n"
           "    _g=generate_pairwise_xor(_n); _g.rename_gate(_g.outputs[0], 'edited_by_caller'); _g.set_outputs([_g.inputs[0]]*_n)\n"
           f"kw={kw!r}\n")
    p.case(("miter", sl[:3], sr[:3], tuple(sorted(kw.items()))),
           sample=f"{name}: left {circ.describe(left)} | right {circ.describe(right)} {kw}")
    try:
        m = build_miter(left, right, **kw)
    except MiterDifferentShapesError:
        if shape_ok:
            p.violation("miter:rejects-equal-shapes", f"equal shapes rejected: {circ.describe(left)} | {circ.describe(right)}",
                        src + "try:\n    build_miter(left,right,**kw)\nexcept MiterDifferentShapesError:\n    sys.exit(1)\nsys.exit(0)\n")
        return
    except Exception as e:  # noqa: BLE001
        p.violation(f"miter:build-raises:{type(e).__name__}:outputs={len(left.outputs)}",
                    f"build_miter raised {type(e).__name__}: {e} for {circ.describe(left)} | {circ.describe(right)}",
                    src + "try:\n    build_miter(left,right,**kw)\nexcept MiterDifferentShapesError:\n    sys.exit(0)\nexcept Exception as e:\n    print(type(e).__name__, e); sys.exit(1)\nsys.exit(0)\n")
        return
    if not shape_ok:
        p.violation("miter:accepts-different-shapes", f"mismatched shapes accepted: {circ.describe(left)} | {circ.describe(right)}",
                    src + "try:\n    build_miter(left,right,**kw)\nexcept MiterDifferentShapesError:\n    sys.exit(0)\nsys.exit(1)\n")
        return
    problems = []
    if circ.snapshot(left) != sl or circ.snapshot(right) != sr:
        problems.append("an operand circuit was modified")
    if len(m.inputs) != len(left.inputs):
        problems.append(f"miter has {len(m.inputs)} inputs, operands have {len(left.inputs)}")
    if len(m.outputs) != 1:
        problems.append(f"miter has {len(m.outputs)} outputs")
    problems += circ.wf_problems(m)
    # inputs in the left circuit's order: the i-th miter input is (the possibly prefixed) i-th left input
    if not problems:
        for mi, li in zip(m.inputs, left.inputs):
            if not (mi == li or mi.endswith("@" + li)):
                problems.append(f"miter input {mi} is not left input {li} (order changed)")
                break
    if not problems:
        xs = [z3.Bool(f"x{i}") for i in range(len(left.inputs))]
        st = [symeval.SymState(x, False) for x in xs]
        try:
            mo = m.evaluate(st)
            lo, ro = left.evaluate(st), right.evaluate(st)
        except Exception as e:  # noqa: BLE001
            problems.append(f"evaluating the miter raised {type(e).__name__}: {e}")
        else:
            spec = z3.Or(*[symeval.states_differ(a, b) for a, b in zip(lo, ro)]) if lo else z3.BoolVal(False)
            mt = symeval.lift(mo[0])
            res, mod = p.check([z3.Or(symeval.zb(mt.u), symeval.zb(mt.t) != spec)], label=f"miter {name}")
            if res == "sat":
                vals = [symeval.model_bool(mod, x) for x in xs]
                problems.append(f"miter output is wrong on inputs {vals}")
            else:
                # satisfiable exactly when not equivalent (through Tseytin + solver stub)
                r2, _ = p.check([spec], label=f"ineq {name}")
                try:
                    ans = is_circuit_satisfiable(m).answer
                    if ans != (r2 == "sat"):
                        problems.append(f"is_circuit_satisfiable(miter)={ans} but circuits are {'in' if r2 == 'sat' else ''}equivalent")
                except Exception as e:  # noqa: BLE001
                    problems.append(f"is_circuit_satisfiable(miter) raised {type(e).__name__}: {e}")
                if p.canaries_run < 2:
                    r3, _ = p.check([symeval.zb(mt.t) != z3.Not(spec)], label="canary")
                    p.canary(r3 == "sat")
    if problems:
        p.violation(
            f"miter:{problems[0].split(' ')[0]}:{'1out' if len(left.outputs) == 1 else 'multi-out'}:{type(problems[0]).__name__ if False else problems[0].split(':')[0][:40]}",
            f"{problems[:2]} for left {circ.describe(left)} | right {circ.describe(right)}",
            src + "sl,sr=circ.snapshot(left),circ.snapshot(right)\nm=build_miter(left,right,**kw)\nbad=[]\n"
            "if circ.snapshot(left)!=sl or circ.snapshot(right)!=sr: bad.append('operand modified')\n"
            "if len(m.inputs)!=len(left.inputs) or len(m.outputs)!=1: bad.append('shape')\n"
            "bad+=circ.wf_problems(m)\n"
            "if not bad:\n"
            "    differ_somewhere=False\n"
            "    for x in itertools.product((False,True), repeat=len(left.inputs)):\n"
            "        l=ref_concrete(circ.netlist_of(left), dict(zip(left.inputs,x))); r=ref_concrete(circ.netlist_of(right), dict(zip(right.inputs,x)))\n"
            "        exp=[l[o] for o in left.outputs]!=[r[o] for o in right.outputs]; differ_somewhere|=exp\n"
            "        try:\n            got=m.evaluate(list(x))[0]\n        except Exception as e:\n            bad.append(('evaluate raised',type(e).__name__,str(e))); break\n"
            "        if got is not exp: bad.append(('wrong',x,got,exp)); break\n"
            "    if not bad and is_circuit_satisfiable(m).answer!=differ_somewhere: bad.append('satisfiability')\n"
            "print(bad)\nsys.exit(1 if bad else 0)\n",
        )


def rebuild_with_block(c, bname):
    from checks.mutators import rebuild

    r = rebuild(c)
    non_inputs = [l for l, g in r.gates.items() if g.gate_type != G.INPUT]
    r.make_block(bname, non_inputs, list(r.outputs))
    return r


def variants(c, rnd):
    """Circuits of the same shape as c: itself, relabelled-equivalent, mutated."""
    yield "self", c
    gates = [(l, g.gate_type, g.operands) for l, g in c.gates.items() if g.gate_type != G.INPUT]
    if gates:
        i = rnd.randrange(len(gates))
        l, t, ops = gates[i]
        alt = rnd.choice(circgen.types_for_arity(len(ops)) or [t])
        g2 = list(gates)
        g2[i] = (l, alt, ops)
        yield "retyped", circgen.build(list(c.inputs), g2, list(c.outputs))
    if len(c.inputs) >= 2:
        # same labels, permuted input order => generally a different function by position
        perm = list(c.inputs)[::-1]
        yield "inputs-reversed", circgen.build(perm, gates, list(c.outputs))


def unit(p, item, tier, seed):
    kind, arg = item
    rnd = random.Random(arg if isinstance(arg, int) else 0)
    if kind == "feature":
        fam = [(n, c) for n, c in circgen.feature_circuits() + circgen.large_circuits(0) if c.outputs]
        for n, c in fam:
            for vn, v in variants(c, rnd):
                check_pair(p, f"{n}/{vn}", c, v)
        # single output, shared labels, custom names, mismatched shapes
        a = circgen.build(["a", "b"], [("g", G.AND, ("a", "b"))], ["g"])
        b = circgen.build(["a", "b"], [("g", G.NAND, ("a", "b")), ("h", G.NOT, ("g",))], ["h"])
        check_pair(p, "single-output-equivalent", a, b)
        check_pair(p, "single-output-custom-names", a, b, left_name="L", right_name="R")
        check_pair(p, "single-output-different", a, circgen.build(["a", "b"], [("g", G.OR, ("a", "b"))], ["g"]))
        check_pair(p, "output-is-input", circgen.build(["a", "b"], [], ["a"]), circgen.build(["p", "q"], [], ["q"]))
        # wide output vectors: left forwards its inputs, right differs in exactly one (each in turn) output
        for width in (8, 9, 10, 16, 17, 25, 33):
            ins = [f"i{k}" for k in range(width)]
            left_w = circgen.build(ins, [], list(ins))
            check_pair(p, f"wide-{width}-equal", left_w, circgen.build(ins, [(f"b{k}", G.IFF, (ins[k],)) for k in range(width)], [f"b{k}" for k in range(width)]))
            for k in sorted({0, width // 2, width - 2, width - 1}):
                gates = [(f"b{j}", G.IFF if j != k else G.NOT, (ins[j],)) for j in range(width)]
                check_pair(p, f"wide-{width}-differs-at-{k}", left_w, circgen.build(ins, gates, [f"b{j}" for j in range(width)]))
        # a caller obtained the comparator gadget earlier and edited its own copy of it
        from cirbo.synthesis.generation import generate_pairwise_xor

        for n_out in (1, 2, 3):
            gadget = generate_pairwise_xor(n_out)
            gadget.rename_gate(gadget.outputs[0], "edited_by_caller")
            gadget.set_outputs([gadget.inputs[0]] * n_out)
        check_pair(p, "after-caller-edited-a-comparator-2", circgen.build(["a", "b"], [("g", G.AND, ("a", "b"))], ["g", "a"]),
                   circgen.build(["a", "b"], [("g", G.AND, ("b", "a"))], ["g", "a"]))
        check_pair(p, "after-caller-edited-a-comparator-3", circgen.build(["a", "b"], [("g", G.AND, ("a", "b"))], ["g", "a", "b"]),
                   circgen.build(["a", "b"], [("g", G.OR, ("b", "a"))], ["g", "a", "b"]))
        # operands whose own labels and block names are the names build_miter uses internally, and a miter as an operand
        from cirbo.sat import build_miter as _bm

        internal = ["big_or", "circuit1", "circuit2", "pairwise_xor", "circuit2@a", "circuit1@g", "pairwise_xor@big_or", "circuit1@circuit1@g"]
        for k in range(0, len(internal), 2):
            n1, n2 = internal[k], internal[k + 1]
            named = circgen.build(["a", "b"], [(n1, G.AND, ("a", "b")), (n2, G.XOR, (n1, "a"))], [n2])
            plain = circgen.build(["a", "b"], [("u", G.AND, ("a", "b")), ("v", G.XOR, ("u", "a"))], ["v"])
            for bname in ("circuit1", "circuit2", "pairwise_xor"):
                blocked = rebuild_with_block(named, bname)
                check_pair(p, f"operand-uses-internal-names[{n1},{n2},block {bname}]/left", blocked, plain)
                check_pair(p, f"operand-uses-internal-names[{n1},{n2},block {bname}]/right", plain, blocked)
        # an operand that holds both a label and the same label under the prefix its copy is given in the miter
        # (`g` next to `circuit1@g`, an input `a` next to `circuit2@a`, `L@g` with left_name="L"): every copied
        # gate still gets a fresh name, whatever its own label looks like
        for pref, kw in (("circuit1", {}), ("circuit2", {}), ("pairwise_xor", {}), ("L", dict(left_name="L", right_name="R")),
                         ("R", dict(left_name="L", right_name="R"))):
            plain = circgen.build(["a", "b"], [("u", G.AND, ("a", "b")), ("v", G.XOR, ("u", "a"))], ["v"])
            twin_g = circgen.build(["a", "b"], [("g", G.AND, ("a", "b")), (pref + "@g", G.XOR, ("g", "a"))], [pref + "@g"])
            twin_g2 = circgen.build(["a", "b"], [(pref + "@g", G.AND, ("a", "b")), ("g", G.XOR, (pref + "@g", "a"))], ["g"])
            twin_in = circgen.build(["a", pref + "@a"], [("g", G.AND, ("a", pref + "@a")), ("h", G.XOR, ("g", "a"))], ["h"])
            twin_out = circgen.build(["a", "b"], [("g", G.OR, ("a", "b")), (pref + "@g", G.AND, ("a", "b"))], ["g", pref + "@g"])
            two = circgen.build(["a", "b"], [("u", G.OR, ("a", "b")), ("v", G.AND, ("u", "a"))], ["u", "v"])
            for tag, tw, other in (("gate", twin_g, plain), ("gate-rev", twin_g2, plain), ("input", twin_in, plain), ("outputs", twin_out, two)):
                check_pair(p, f"label-and-prefixed-twin[{pref},{tag}]/left", tw, other, **kw)
                check_pair(p, f"label-and-prefixed-twin[{pref},{tag}]/right", other, tw, **kw)
                check_pair(p, f"label-and-prefixed-twin[{pref},{tag}]/both", tw, tw, **kw)
        m1 = _bm(a, b)
        m2 = _bm(a, circgen.build(["a", "b"], [("g", G.OR, ("a", "b"))], ["g"]))
        check_pair(p, "operands-are-miters/equal", m1, _bm(a, b))
        check_pair(p, "operands-are-miters/different", m1, m2)
        check_pair(p, "miter-against-plain", m2, circgen.build(["p", "q"], [("z", G.XOR, ("p", "q"))], ["z"]))
        check_pair(p, "plain-against-miter", circgen.build(["p", "q"], [("z", G.XOR, ("p", "q"))], ["z"]), m2)
        # every small pair of different shapes (differences of one, two, three and four; inputs and outputs)
        def wires(n_in, n_out):
            ins = [f"w{i}" for i in range(n_in)]
            return circgen.build(ins, [("wg", G.NOT, (ins[0],))], ["wg"] + [ins[k % n_in] for k in range(n_out - 1)])

        for ni1, no1, ni2, no2 in [(2, 1, 2, 3), (2, 3, 2, 1), (2, 2, 2, 4), (2, 1, 2, 5), (2, 5, 2, 1), (2, 2, 2, 3), (3, 2, 3, 5),
                                   (1, 1, 3, 1), (3, 1, 1, 1), (2, 2, 4, 2), (1, 2, 2, 2), (1, 1, 5, 1), (2, 1, 4, 3), (3, 3, 1, 1)]:
            check_pair(p, f"mismatch-{ni1}x{no1}-vs-{ni2}x{no2}", wires(ni1, no1), wires(ni2, no2))
        check_pair(p, "mismatch-inputs", a, circgen.build(["a"], [("g", G.NOT, ("a",))], ["g"]))
        check_pair(p, "mismatch-outputs", a, circgen.build(["a", "b"], [("g", G.AND, ("a", "b"))], ["g", "g"]))
    else:
        for i in range(12 if tier == "quick" else 40):
            ni, no = rnd.randint(1, 4), rnd.randint(1, 3)
            l = circgen.random_circuit(rnd, ni, rnd.randint(1, 8), n_outputs=no, max_arity=3)
            r = circgen.random_circuit(rnd, ni, rnd.randint(1, 8), n_outputs=no, max_arity=3,
                                       labels=None if i % 2 else [f"y{k}" for k in range(20)])
            check_pair(p, f"seeded[{arg}:{i}]", l, r)
            for vn, v in variants(l, rnd):
                check_pair(p, f"seeded[{arg}:{i}]/{vn}", l, v)


def run(rep, tier, seed, only=None):
    symeval.install()
    thorough = tier == "thorough"
    rep.functions = ["cirbo.sat.miter.build_miter", "Circuit.add_circuit / connect_circuit / get_block", "generate_pairwise_xor",
                     "Circuit.evaluate", "tseytin_transformation + is_circuit_satisfiable (stub solver)"]
    rep.bounds = {"pairs": "feature circuits x {self, retyped, inputs-reversed} + seeded pairs <=4 inputs, <=3 outputs, <=8 gates; 1..3 outputs; shared labels; custom block names; mismatched shapes"}
    rep.bounds['prefixed twins'] = "operands holding a label and the same label under circuit1@ / circuit2@ / pairwise_xor@ / L@ / R@ (gates, inputs, outputs), left / right / both"
    rep.outside = ["block names that clash with gate labels of the operands"]
    rep.rule = "program = ordered pair of circuits; validity of the miter specification decided by z3 over all inputs"
    rep.explanation = "translation validation of build_miter"
    rep.pmap(unit, [("feature", 0)] + [("seeded", seed * 91 + s) for s in range(128 if thorough else 47)])
