"""C18 — simplification passes achieve their stated effect; pipelines equal sequencing.

z3-decided clause: after MergeEquivalentGates every pair of non-input gates is
*inequivalent* (z3 must produce a distinguishing input).  The structural clauses
are bounded exploration of the circuit family (see DESIGN.md "honesty").
"""
import itertools
import random

import z3

from vlib import circ, circgen, report, symeval
from checks import passes
from checks.common import REPLAY_PRELUDE

HASH_SEEDS = {"quick": (1,), "thorough": (1, 2, 3)}  # also run (quick size) under these PYTHONHASHSEEDs
LEVEL = "exploration"
TECHNIQUE = "bounded exploration of circuits x passes with z3 deciding pairwise gate inequivalence after MergeEquivalentGates"
USES_STUBS = True

from cirbo.core.circuit import gate as G  # noqa: E402

NEG = {"NOT": 0, "LNOT": 0, "RNOT": 1}
BUF = {"IFF": 0, "LIFF": 0, "RIFF": 1}
SYMMETRIC = {"AND", "OR", "XOR", "NAND", "NOR", "NXOR", "ALWAYS_TRUE", "ALWAYS_FALSE", "NOT", "IFF"}


def reachable(c):
    seen, st = set(), list(c.outputs)
    while st:
        l = st.pop()
        if l in seen:
            continue
        seen.add(l)
        st.extend(c.gates[l].operands)
    return seen


def same_circuit(a, b):
    return (circ.netlist_of(a) == circ.netlist_of(b) and list(a.inputs) == list(b.inputs)
            and list(a.outputs) == list(b.outputs) and a == b)


REPLAY_HEAD = REPLAY_PRELUDE + passes.IMPORTS + passes.APPLY_SRC


def effect_checks(p, name, c):
    src = REPLAY_HEAD + circ.circ_src(c) + "\n"
    # ---- RemoveRedundantGates
    for removal in (False, True):
        spec = f"RRG(allow_inputs_removal={removal})"
        r = passes.apply_spec(spec, c)
        p.case(("rrg", circ.snapshot(c)[:3], removal), sample=f"{spec} on {name}: {circ.describe(c)}")
        reach = reachable(c)
        expect = set(reach) | (set() if removal else set(c.inputs))
        bad = None
        if set(r.gates) != expect:
            bad = f"gates {sorted(r.gates)} != reachable set {sorted(expect)}"
        elif any(circ.netlist_of(r)[l] != circ.netlist_of(c)[l] for l in r.gates):
            bad = "a kept gate was changed"
        elif list(r.outputs) != list(c.outputs):
            bad = "outputs changed"
        elif list(r.inputs) != [i for i in c.inputs if i in expect]:
            bad = "inputs order/content wrong"
        else:
            rr = passes.apply_spec(spec, r)
            if not same_circuit(rr, r):
                bad = "not idempotent"
        if bad:
            p.violation(f"effect:RRG({removal}):{bad.split(' ')[0]}", f"{spec} on {circ.describe(c)} -> {circ.describe(r)}: {bad}",
                        src + f"r=apply_spec({spec!r}, c)\n"
                        "seen=set(); st=list(c.outputs)\n"
                        "while st:\n    l=st.pop()\n    if l in seen: continue\n    seen.add(l); st.extend(c.gates[l].operands)\n"
                        f"expect=seen|(set() if {removal} else set(c.inputs))\n"
                        f"rr=apply_spec({spec!r}, r)\n"
                        "bad = set(r.gates)!=expect or list(r.outputs)!=list(c.outputs) or list(r.inputs)!=[i for i in c.inputs if i in expect] "
                        "or any(circ.netlist_of(r)[l]!=circ.netlist_of(c)[l] for l in r.gates if l in c.gates) or not (rr==r)\n"
                        "print(sorted(r.gates), sorted(expect)); sys.exit(1 if bad else 0)\n")
    # ---- MergeDuplicateGates
    r = passes.apply_spec("MD()", c)
    p.case(("md", circ.snapshot(c)[:3]), sample=f"MD() on {name}")
    sigs = {}
    dup = None
    for l, g in r.gates.items():
        if g.gate_type == G.INPUT:
            continue
        ops = tuple(sorted(g.operands)) if g.gate_type.name in SYMMETRIC else tuple(g.operands)
        sig = (g.gate_type.name, ops)
        if sig in sigs:
            dup = (sigs[sig], l)
            break
        sigs[sig] = l
    if dup:
        p.violation("effect:MD:duplicates-remain", f"after MergeDuplicateGates gates {dup} have the same type and operands: {circ.describe(c)} -> {circ.describe(r)}",
                    src + "r=apply_spec('MD()', c)\nS={'AND','OR','XOR','NAND','NOR','NXOR','ALWAYS_TRUE','ALWAYS_FALSE','NOT','IFF'}\nsigs={}\nbad=False\n"
                    "for l,g in r.gates.items():\n"
                    "    if g.gate_type.name=='INPUT': continue\n"
                    "    ops=tuple(sorted(g.operands)) if g.gate_type.name in S else tuple(g.operands)\n"
                    "    if (g.gate_type.name,ops) in sigs: bad=True; print(l, sigs[(g.gate_type.name,ops)])\n"
                    "    sigs[(g.gate_type.name,ops)]=l\nsys.exit(1 if bad else 0)\n")
    # ---- MergeEquivalentGates: pairwise inequivalence decided by z3
    if len(c.inputs) <= 6:
        r = passes.apply_spec("ME()", c)
        p.case(("me", circ.snapshot(c)[:3]), sample=f"ME() on {name}: {circ.describe(r)}")
        zs = {lab: z3.Bool(f"x{i}") for i, lab in enumerate(r.inputs)}
        sym = {lab: symeval.SymState(v, False) for lab, v in zs.items()}
        terms = symeval.eval_all_gates(r, sym)
        nonin = [l for l, g in r.gates.items() if g.gate_type != G.INPUT]
        for a, b in itertools.combinations(nonin, 2):
            res, _ = p.check([symeval.states_differ(terms[a], terms[b])], label=f"ineq {a},{b}")
            p.count("inequivalence_queries")
            if res == "unsat":
                p.queries["unsat"] -= 1  # an unsat here is a violation, not a discharged obligation
                p.violation("effect:ME:equivalent-gates-remain",
                            f"after MergeEquivalentGates gates {a} and {b} still have the same truth table: {circ.describe(c)} -> {circ.describe(r)}",
                            src + "import itertools\nr=apply_spec('ME()', c)\ntt=r.get_gates_truth_table()\n"
                            "nonin=[l for l,g in r.gates.items() if g.gate_type.name!='INPUT']\n"
                            "bad=[(a,b) for a,b in itertools.combinations(nonin,2) if list(tt[a])==list(tt[b])]\nprint(bad)\nsys.exit(1 if bad else 0)\n")
                break
    # ---- MergeUnaryOperators
    unary = [g for g in c.gates.values() if g.gate_type.name in NEG or g.gate_type.name in BUF]
    if unary:
        r = passes.apply_spec("MU()", c)
        p.case(("mu", circ.snapshot(c)[:3]), sample=f"MU() on {name}")
        if all(g.gate_type.name in NEG for g in unary):
            bad = [l for l, g in r.gates.items() if g.gate_type.name in NEG
                   and r.gates[g.operands[NEG[g.gate_type.name]]].gate_type.name in NEG]
            if bad:
                p.violation("effect:MU:negation-of-negation", f"negation of a negation remains at {bad}: {circ.describe(c)} -> {circ.describe(r)}",
                            src + "r=apply_spec('MU()', c)\nNEG={'NOT':0,'LNOT':0,'RNOT':1}\n"
                            "bad=[l for l,g in r.gates.items() if g.gate_type.name in NEG and r.gates[g.operands[NEG[g.gate_type.name]]].gate_type.name in NEG]\n"
                            "print(bad); sys.exit(1 if bad else 0)\n")
        if all(g.gate_type.name in BUF for g in unary):
            used = {o for g in r.gates.values() for o in g.operands} | set(r.outputs)
            bad = [l for l in used if r.gates[l].gate_type.name in BUF]
            if bad:
                p.violation("effect:MU:buffer-remains", f"buffer remains as operand/output {bad}: {circ.describe(c)} -> {circ.describe(r)}",
                            src + "r=apply_spec('MU()', c)\nBUF={'IFF','LIFF','RIFF'}\n"
                            "used={o for g in r.gates.values() for o in g.operands}|set(r.outputs)\n"
                            "bad=[l for l in used if r.gates[l].gate_type.name in BUF]\nprint(bad); sys.exit(1 if bad else 0)\n")


def split_top(spec):
    """Top-level constituents of a pipeline spec, as a list of specs applied in order."""
    spec = spec.strip()
    if spec == "cleanup(False)":
        return ["RRG()", "MU()", "MD()"]
    if spec == "cleanup(True)":
        return ["RRG()", "MU()", "MD()", "ME()"]
    inner = None
    if spec.startswith("iter(") and spec.endswith(")"):
        return split_top(spec[5:-1])
    if spec.startswith("TC(") and spec.endswith(")") and _balanced(spec[3:-1]):
        return split_top(spec[3:-1])
    if spec.startswith("[") and spec.endswith("]"):
        inner, sep = spec[1:-1], ","
    elif spec.startswith("(") and spec.endswith(")") and _balanced(spec[1:-1]):
        inner, sep = spec[1:-1], "|"
    if inner is None:
        return [spec]
    parts, depth, cur = [], 0, ""
    for ch in inner:
        if ch in "([":
            depth += 1
        if ch in ")]":
            depth -= 1
        if ch == sep and depth == 0:
            parts.append(cur.strip())
            cur = ""
        else:
            cur += ch
    parts.append(cur.strip())
    out = []
    for part in parts:
        out += split_top(part) if part.startswith(("(", "[", "TC(", "iter(")) else [part]
    return out


def _balanced(s):
    d = 0
    for ch in s:
        d += ch == "("
        d -= ch == ")"
        if d < 0:
            return False
    return d == 0


def pipeline_checks(p, name, c, spec):
    parts = split_top(spec)
    try:
        whole = passes.apply_spec(spec, c)
        seq = c
        for part in parts:
            seq = passes.apply_spec(part, seq)
    except Exception as e:  # noqa: BLE001
        p.violation(f"pipeline-raises:{spec}", f"{spec} raised {type(e).__name__}: {e}",
                    REPLAY_HEAD + circ.circ_src(c) + f"\ntry:\n    apply_spec({spec!r}, c)\n    x=c\n    for s in {parts!r}: x=apply_spec(s,x)\nexcept Exception as e:\n    print(e); sys.exit(1)\nsys.exit(0)\n")
        return
    p.case(("pipe", circ.snapshot(c)[:3], spec), sample=f"{spec} == sequencing {parts} on {name}")
    if not same_circuit(whole, seq):
        p.violation(f"pipeline:{spec}", f"{spec} on {circ.describe(c)} gives {circ.describe(whole)} but sequencing {parts} gives {circ.describe(seq)}",
                    REPLAY_HEAD + circ.circ_src(c) + f"\nwhole=apply_spec({spec!r}, c)\nseq=c\nfor s in {parts!r}: seq=apply_spec(s, seq)\n"
                    "same = whole==seq and circ.netlist_of(whole)==circ.netlist_of(seq)\nprint(same)\nsys.exit(0 if same else 1)\n")


TWICE_SRC = """
def same_object_twice(c, first, middle):
    # a pipeline that lists one transformer *object* twice must equal sequencing with fresh objects
    from cirbo.core.circuit.transformer import Transformer
    from cirbo.minimization.simplification import MergeDuplicateGates as MD, MergeEquivalentGates as ME, MergeUnaryOperators as MU, RemoveRedundantGates as RRG
    mk = {'MD': MD, 'ME': ME, 'MU': MU, 'RRG': RRG}
    obj = mk[first]()
    whole = Transformer.apply_transformers(c, [obj, mk[middle](), obj])
    seq = mk[first]().transform(mk[middle]().transform(mk[first]().transform(c)))
    return whole, seq
"""
exec(TWICE_SRC)  # noqa: S102


CLEANUP_HISTORY_SRC = """
def cleanup_after_heavy(c):
    # a heavy clean-up earlier in the process must not change what a later light clean-up does
    from cirbo.minimization.simplification import cleanup, MergeDuplicateGates as MD, MergeUnaryOperators as MU, RemoveRedundantGates as RRG
    cleanup(c, use_heavy=True)
    light = cleanup(c)
    seq = MD().transform(MU().transform(RRG().transform(c)))
    return light, seq
"""
exec(CLEANUP_HISTORY_SRC)  # noqa: S102


OPERAND_KEPT_SRC = """
def pipe_operands_kept(c):
    # `x | y` builds a new pipeline; x and y stay the pipelines they were.  A pipeline that was an operand of `|`
    # (on either side, piped with a single pass or with another pipeline) still equals its own passes in sequence.
    from cirbo.minimization.simplification import MergeDuplicateGates as MD, MergeEquivalentGates as ME, MergeUnaryOperators as MU, RemoveRedundantGates as RRG
    out = []
    base = MU() | MD()
    right = RRG(allow_inputs_removal=True) | MU()
    bigger = base | right
    longer = base | RRG()
    front = MD() | base
    out.append(('base after being an operand', base.transform(c), MD().transform(MU().transform(c))))
    out.append(('right operand after being an operand', right.transform(c), MU().transform(RRG(allow_inputs_removal=True).transform(c))))
    out.append(('base | (pipeline)', bigger.transform(c), MU().transform(RRG(allow_inputs_removal=True).transform(MD().transform(MU().transform(c))))))
    out.append(('base | pass', longer.transform(c), RRG().transform(MD().transform(MU().transform(c)))))
    out.append(('pass | base', front.transform(c), MD().transform(MU().transform(MD().transform(c)))))
    return out
"""
exec(OPERAND_KEPT_SRC)  # noqa: S102


def operand_kept_check(p, name, c):
    p.case(("pipe-operands-kept", circ.snapshot(c)[:3]))
    try:
        bad = [what for what, whole, seq in pipe_operands_kept(c) if not same_circuit(whole, seq)]  # noqa: F821
    except Exception as e:  # noqa: BLE001
        bad = [f"raised {type(e).__name__}: {e}"]
    if bad:
        p.violation("pipeline:operand-of-a-pipe-reused", f"on {circ.describe(c)}: differs from sequencing: {bad}",
                    REPLAY_PRELUDE + circ.circ_src(c) + OPERAND_KEPT_SRC + "\ntry:\n    bad=[w for w,a,b in pipe_operands_kept(c) if not (a==b and circ.netlist_of(a)==circ.netlist_of(b))]\n"
                    "except Exception as e:\n    bad=[type(e).__name__, str(e)]\nprint(bad)\nsys.exit(1 if bad else 0)\n")


def cleanup_history_check(p, name, c):
    if len(c.inputs) > 6:
        return
    p.case(("cleanup-history", circ.snapshot(c)[:3]))
    try:
        light, seq = cleanup_after_heavy(c)  # noqa: F821
        bad = None if same_circuit(light, seq) else f"cleanup() gives {circ.describe(light)}, its three passes in sequence give {circ.describe(seq)}"
    except Exception as e:  # noqa: BLE001
        bad = f"raised {type(e).__name__}: {e}"
    if bad:
        p.violation("pipeline:cleanup-after-heavy-cleanup", f"after a cleanup(use_heavy=True) in the same process, on {circ.describe(c)}: {bad}",
                    REPLAY_PRELUDE + circ.circ_src(c) + CLEANUP_HISTORY_SRC + "\ntry:\n    light, seq = cleanup_after_heavy(c)\n    same = light==seq and circ.netlist_of(light)==circ.netlist_of(seq)\n"
                    "except Exception as e:\n    print(type(e).__name__, e); same=False\nprint(same)\nsys.exit(0 if same else 1)\n")


USER_PASS_SRC = """
def user_pass_results(c, which):
    # a user-defined transformer whose declared pre-/post-transformers have dependencies of their own: running it is
    # running the dependencies (with theirs) and the pass itself in the declared order
    import copy
    from cirbo.core.circuit.transformer import Transformer
    from cirbo.minimization.simplification import MergeDuplicateGates as MD, MergeUnaryOperators as MU, RemoveRedundantGates as RRG

    class Identity(Transformer):
        def __init__(self, pre=(), post=()):
            super().__init__(pre_transformers=pre, post_transformers=post)

        def _transform(self, circuit):
            return copy.copy(circuit)

    if which == 'post':
        got = Identity(post=(MD(),)).transform(c)
        want = MD().transform(c)
    elif which == 'pre':
        got = Identity(pre=(MU(),)).transform(c)
        want = MU().transform(c)
    else:
        got = Identity(pre=(Identity(post=(MU(),)),), post=(Identity(post=(MD(),)),)).transform(c)
        want = MD().transform(MU().transform(c))
    return got, want
"""
exec(USER_PASS_SRC)  # noqa: S102


def user_pass_checks(p, name, c):
    for which in ("post", "pre", "nested"):
        p.case(("user-pass", circ.snapshot(c)[:3], which))
        try:
            got, want = user_pass_results(c, which)  # noqa: F821
            bad = None if same_circuit(got, want) else f"gives {circ.describe(got)}, the declared passes in sequence give {circ.describe(want)}"
        except Exception as e:  # noqa: BLE001
            bad = f"raised {type(e).__name__}: {e}"
        if bad:
            p.violation(f"pipeline:user-pass:{which}", f"a user-defined pass with {which} dependencies on {circ.describe(c)} {bad}",
                        REPLAY_PRELUDE + circ.circ_src(c) + USER_PASS_SRC + f"\ntry:\n    got, want = user_pass_results(c, {which!r})\n    same = got==want and circ.netlist_of(got)==circ.netlist_of(want)\n"
                        "except Exception as e:\n    print(type(e).__name__, e); same=False\nprint(same)\nsys.exit(0 if same else 1)\n")
            return


def twice_checks(p, name, c):
    for first, middle in (("MD", "MU"), ("MD", "RRG"), ("MU", "MD"), ("RRG", "MU"), ("ME", "MU")):
        if first == "ME" and len(c.inputs) > 6:
            continue
        p.case(("twice", circ.snapshot(c)[:3], first, middle))
        try:
            whole, seq = same_object_twice(c, first, middle)  # noqa: F821
            bad = None if same_circuit(whole, seq) else f"gives {circ.describe(whole)} but fresh objects in sequence give {circ.describe(seq)}"
        except Exception as e:  # noqa: BLE001
            bad = f"raised {type(e).__name__}: {e}"
        if bad:
            p.violation(f"pipeline:same-object-twice:{first}", f"[{first}, {middle}, the same {first} object] on {circ.describe(c)} {bad}",
                        REPLAY_PRELUDE + circ.circ_src(c) + TWICE_SRC + f"\ntry:\n    whole, seq = same_object_twice(c, {first!r}, {middle!r})\n"
                        "    same = whole==seq and circ.netlist_of(whole)==circ.netlist_of(seq)\nexcept Exception as e:\n    print(type(e).__name__, e); same=False\nprint(same)\nsys.exit(0 if same else 1)\n")
            return


def canaries(p):
    """Vacuity guards: the effect predicates must flag the *untransformed* feature circuits."""
    fam = dict(circgen.feature_circuits())
    c = fam["duplicate_gates"]
    sigs = set()
    dup = False
    for l, g in c.gates.items():
        ops = tuple(sorted(g.operands)) if g.gate_type.name in SYMMETRIC else tuple(g.operands)
        dup |= (g.gate_type.name, ops) in sigs
        sigs.add((g.gate_type.name, ops))
    p.canary(dup)
    c = fam["equivalent_not_duplicate"]
    zs = {lab: z3.Bool(f"x{i}") for i, lab in enumerate(c.inputs)}
    terms = symeval.eval_all_gates(c, {lab: symeval.SymState(v, False) for lab, v in zs.items()})
    res, _ = p.check([symeval.states_differ(terms["p"], terms["q"])], label="canary")
    p.queries[res] -= 1
    p.canary(res == "unsat")
    c = fam["dead_gate_unused_input"]
    p.canary(set(c.gates) != reachable(c) | set(c.inputs))


def unit(p, item, tier, seed):
    s, count = item
    if s % 16 == 0:
        canaries(p)
    rnd = random.Random(s)
    specs = [x for x in passes.pass_specs(tier == "thorough", rnd) if x not in passes.BASIC]
    fam = passes.pass_circuits(s, count, max_inputs=5, max_gates=10 if tier == "quick" else 13)
    if s % 16 != 0:
        fam = [x for x in fam if x[0].startswith("seeded")]
    for name, c in fam:
        for fn in (effect_checks, twice_checks, cleanup_history_check, user_pass_checks, operand_kept_check):
            try:
                fn(p, name, c)
            except Exception as e:  # noqa: BLE001
                if not report.raised_in_library(e):
                    raise
                # a pass refused a well-formed circuit
                p.case(("pass-raises", circ.snapshot(c)[:3], fn.__name__))
                p.violation(f"pass-raises:{type(e).__name__}", f"a simplification pass raised {type(e).__name__}: {e} on {circ.describe(c)} (during {fn.__name__})",
                            REPLAY_HEAD + circ.circ_src(c) + "\nbad=[]\nfor s in ['RRG()', 'RRG(allow_inputs_removal=True)', 'MU()', 'MD()', 'ME()', 'cleanup(False)', 'cleanup(True)', '(MU() | MD() | ME())']:\n"
                            "    try:\n        apply_spec(s, c)\n    except Exception as e:\n        bad.append((s, type(e).__name__))\nprint(bad); sys.exit(1 if bad else 0)\n")
                break
        for spec in rnd.sample(specs, min(len(specs), 8 if tier == "quick" else 25)) + [rnd.choice(passes.ONE_SHOT)] + passes.CONSTRUCTED[:2] + [rnd.choice(passes.CONSTRUCTED[2:])]:
            if ("ME()" in spec or spec == "cleanup(True)") and len(c.inputs) > 6:
                continue
            pipeline_checks(p, name, c, spec)


def run(rep, tier, seed, only=None):
    symeval.install()
    thorough = tier == "thorough"
    rep.functions = ["RemoveRedundantGates/MergeUnaryOperators/MergeDuplicateGates/MergeEquivalentGates._transform",
                     "Transformer.linearize_transformers / linearize_reduce_transformers / apply_transformers / __or__ / __ror__ / __eq__",
                     "TransformerComposition", "cleanup"]
    rep.bounds = {"circuits": "feature family + seeded DAGs <=5 inputs / <=10 (quick) <=13 (thorough) gates",
                  "pipelines": "nested |, lists, cleanup light/heavy, repeated idempotent passes"}
    rep.outside = ["the program dimension is enumerated, not solved (no value dimension except pairwise inequivalence)"]
    rep.bounds['operands of |'] = 'a pipeline that was the left or right operand of | (with a pass or with another pipeline) equals its own passes in sequence, per circuit'
    rep.bounds['object reuse'] = 'one transformer object listed twice in a pipeline (5 first/middle combinations per circuit) vs fresh objects in sequence'
    rep.rule = ("case = (circuit, pass) effect predicate or (circuit, pipeline) sequencing equality; distinct by structural hash; "
                "pairwise inequivalence after MergeEquivalentGates decided by z3 (sat = distinguishing input)")
    rep.explanation = "bounded exploration; z3 decides the truth-table clause"
    rep.pmap(unit, [(seed * 211 + s, 30 if thorough else 12) for s in range(192 if thorough else 64)])
