"""Entry point:  python -m checks.run C07 --tier quick|thorough [--only substr]"""
import argparse
import importlib
import os
import sys

sys.dont_write_bytecode = True
VERIF = os.path.dirname(os.path.dirname(os.path.abspath(__file__)))
if VERIF not in sys.path:
    sys.path.insert(0, VERIF)


def hash_seed_children(rep, mod, pid, tier):
    """Set/dict iteration order over labels depends on PYTHONHASHSEED: the same check (quick size) is run again in
    child processes under other seeds; a violation found there is replayed there and reported here."""
    import subprocess
    import tempfile

    seeds = getattr(mod, "HASH_SEEDS", {}).get(tier, ())
    for hs in seeds:
        tmp = tempfile.mkdtemp(prefix="verif_hs_")
        env = dict(os.environ, PYTHONHASHSEED=str(hs), VERIF_CHILD="1", VERIF_EVIDENCE_DIR=tmp)
        cmd = [sys.executable, "-m", "checks.run", pid, "--tier", "quick"] + (["--only", mod.HASH_ONLY] if getattr(mod, "HASH_ONLY", None) else [])
        try:
            r = subprocess.run(cmd, cwd=VERIF, env=env, capture_output=True, text=True, timeout=3000)
            out, rc = r.stdout, r.returncode
        except subprocess.TimeoutExpired:
            out, rc = "", 3
        finally:
            import shutil

            shutil.rmtree(tmp, ignore_errors=True)
        lines = out.splitlines()
        summary = next((l for l in reversed(lines) if l.startswith("[" + pid)), "(no summary)")
        rep.note(f"PYTHONHASHSEED={hs}: {summary}")
        rep.count("hash_seed_runs")
        for i, l in enumerate(lines):
            if l.startswith("VIOLATION"):
                rep.child_violations.append((l, lines[i + 1] if i + 1 < len(lines) else ""))
            elif l.startswith("HARNESS-ERROR"):
                rep.error(f"child under PYTHONHASHSEED={hs}: {l[:300]}")
        if rc not in (0, 1):
            rep.error(f"child under PYTHONHASHSEED={hs} exited {rc}")


def main():
    if "PYTHONHASHSEED" not in os.environ:
        # deterministic runs: the seed is part of the configuration (other seeds are explored explicitly)
        os.execve(sys.executable, [sys.executable, "-m", "checks.run"] + sys.argv[1:],
                  dict(os.environ, PYTHONHASHSEED=os.environ.get("VERIF_HASHSEED", "0")))
    ap = argparse.ArgumentParser()
    ap.add_argument("pid")
    ap.add_argument("--tier", default=os.environ.get("VERIF_TIER", "quick"))
    ap.add_argument("--only", default=None, help="run only sub-checks whose name contains this")
    args = ap.parse_args()
    tier = args.tier if args.tier in ("quick", "thorough") else "quick"
    seed = int(os.environ.get("VERIF_SEED", "0") or 0)
    from vlib import env, report

    env.setup()
    mod = importlib.import_module(f"checks.{args.pid.lower()}")
    rep = report.Report(args.pid.upper(), tier, seed, mod.LEVEL, getattr(mod, "TECHNIQUE", ""))
    rep.assumptions += env.stubs_in_use() if getattr(mod, "USES_STUBS", False) else []
    rep.child_violations = []
    try:
        mod.run(rep, tier, seed, only=args.only)
        if not os.environ.get("VERIF_CHILD") and args.only is None:
            hash_seed_children(rep, mod, args.pid.upper(), tier)
    except Exception as e:  # noqa: BLE001
        import traceback

        rep.error(f"check crashed: {type(e).__name__}: {e}\n{traceback.format_exc()[-3000:]}")
    rc = rep.finish()
    sys.stdout.flush()
    sys.exit(rc)


if __name__ == "__main__":
    main()
