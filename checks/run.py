"""Entry point:  python -m checks.run C07 --tier quick|thorough [--only substr]"""
import argparse
import importlib
import os
import sys

sys.dont_write_bytecode = True
VERIF = os.path.dirname(os.path.dirname(os.path.abspath(__file__)))
if VERIF not in sys.path:
    sys.path.insert(0, VERIF)


def main():
    ap = argparse.ArgumentParser()
    ap.add_argument("pid")
    ap.add_argument("--tier", default=os.environ.get("VERIF_TIER", "quick"))
    ap.add_argument("--only", default=None, help="run only sub-checks whose name contains this")
    args = ap.parse_args()
    tier = args.tier if args.tier in ("quick", "thorough") else "quick"
    seed = int(os.environ.get("VERIF_SEED", "0") or 0)
    from vlib import env, report

    env.setup()
    mod = importlib.import_module(f"checks.{args.pid.lower()}")
    rep = report.Report(args.pid.upper(), tier, seed, mod.LEVEL, getattr(mod, "TECHNIQUE", ""))
    rep.assumptions += env.stubs_in_use() if getattr(mod, "USES_STUBS", False) else []
    try:
        mod.run(rep, tier, seed, only=args.only)
    except Exception as e:  # noqa: BLE001
        import traceback

        rep.error(f"check crashed: {type(e).__name__}: {e}\n{traceback.format_exc()[-3000:]}")
    rc = rep.finish()
    sys.stdout.flush()
    sys.exit(rc)


if __name__ == "__main__":
    main()
