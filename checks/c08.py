"""C08 — multiplier and squarer generators compute exact products."""
import ast
import random
import types

import z3

from vlib import circ, env, symeval
from checks import gencommon
from checks.common import REPLAY_PRELUDE

LEVEL = "other"
TECHNIQUE = "bounded SMT: real generator output (real evaluator terms, cut-point operands) == bvmul(a,b) decided by z3; Karatsuba/squarer recursion via threshold-shrunk twins recompiled from the current source"
USES_STUBS = True

from cirbo.synthesis.generation import arithmetics as A  # noqa: E402
from cirbo.synthesis.generation.arithmetics import multiplication as M, square as SQ  # noqa: E402

MUL_MODES = ["DEFAULT", "KARATSUBA", "ALTER", "DADDA", "WALLACE", "POW2_M1"]
SQ_MODES = ["DEFAULT", "POW2_M1"]


# ----------------------------------------------------------------------------
# threshold-shrunk twins (cut recorded in evidence: the guards themselves are not covered)
class _Shrink(ast.NodeTransformer):
    def __init__(self, mapping, funcs):
        self.mapping, self.funcs, self.inside, self.hits = mapping, funcs, False, 0

    def visit_FunctionDef(self, node):
        prev = self.inside
        self.inside = node.name in self.funcs
        self.generic_visit(node)
        self.inside = prev
        return node

    def visit_Compare(self, node):
        self.generic_visit(node)
        if self.inside:
            for sub in ast.walk(node):
                if isinstance(sub, ast.Constant) and isinstance(sub.value, int) and sub.value in self.mapping:
                    sub.value = self.mapping[sub.value]
                    self.hits += 1
        return node


_twins = {}
TWIN_CALLS = {}


def twins():
    """(multiplication twin, square twin) recompiled from /repo's *current* source text."""
    if _twins:
        return _twins["m"], _twins["s"], _twins["hits"]
    msrc = env.source_of("cirbo.synthesis.generation.arithmetics.multiplication")
    tree = ast.parse(msrc)
    tr = _Shrink({20: 6, 18: 4}, {"add_mul_karatsuba", "add_mul_karatsuba_with_efficient_sum"})
    tree = ast.fix_missing_locations(tr.visit(tree))
    mt = types.ModuleType("cirbo.synthesis.generation.arithmetics.multiplication_twin")
    mt.__package__ = "cirbo.synthesis.generation.arithmetics"
    exec(compile(tree, "multiplication_twin.py", "exec"), mt.__dict__)  # noqa: S102
    ssrc = env.source_of("cirbo.synthesis.generation.arithmetics.square")
    tree2 = ast.parse(ssrc)
    tr2 = _Shrink({48: 4, 49: 5, 53: 5}, {"add_square"})
    tree2 = ast.fix_missing_locations(tr2.visit(tree2))
    st = types.ModuleType("cirbo.synthesis.generation.arithmetics.square_twin")
    st.__package__ = "cirbo.synthesis.generation.arithmetics"
    exec(compile(tree2, "square_twin.py", "exec"), st.__dict__)  # noqa: S102
    # count recursive invocations (evidence that the recursion branch really runs)
    for mod, names in ((mt, ("add_mul_karatsuba", "add_mul_karatsuba_with_efficient_sum")), (st, ("add_square",))):
        for nm in names:
            def _wrap(f=getattr(mod, nm), nm=nm):
                def g(*a, **k):
                    TWIN_CALLS[nm] = TWIN_CALLS.get(nm, 0) + 1
                    return f(*a, **k)
                return g
            setattr(mod, nm, _wrap())
    st.add_mul_karatsuba = mt.add_mul_karatsuba
    _twins.update(m=mt, s=st, hits=(tr.hits, tr2.hits))
    return mt, st, (tr.hits, tr2.hits)


def invoke(case, c, operands):
    """Returns list of result labels (as returned by the generator)."""
    gencommon.elsewhere_first(case, _invoke)
    guard = gencommon.OperandLists(operands, alias=case.get("alias", False))
    try:
        return _invoke(case, c, guard.lists)
    finally:
        guard.check()


def _invoke(case, c, operands):
    be = case.get("big_endian", False)
    kind = case["kind"]
    if gencommon.one_shot(case) and not case.get("alias"):
        operands = [iter(list(o)) for o in operands]
    if kind == "mul":
        fn = M._process_mul[M.MulMode(case["mode"])]
        return fn(c, operands[0], operands[1], big_endian=be)
    if kind == "mul_public":
        fn = {"KARATSUBA_PLAIN": A.add_mul_karatsuba}[case["mode"]]
        return fn(c, operands[0], operands[1], big_endian=be)
    if kind == "square":
        fn = SQ._process_square[SQ.SquareMode(case["mode"])]
        return fn(c, operands[0], big_endian=be)
    mt, st, _ = twins()
    if kind == "twin_mul":
        fn = {"KARATSUBA": mt.add_mul_karatsuba_with_efficient_sum, "KARATSUBA_PLAIN": mt.add_mul_karatsuba}[case["mode"]]
        return fn(c, operands[0], operands[1], big_endian=be)
    if kind == "twin_square":
        return st.add_square(c, operands[0], big_endian=be)
    raise ValueError(kind)


def expected_len(case):
    w = case["widths"]
    if "square" in case["kind"]:
        return 1 if w[0] == 1 else 2 * w[0]
    n, m = w
    return n + m - 1 if (n == 1 or m == 1) else n + m


def le(labels, be):
    labels = list(labels)
    return labels[::-1] if be else labels


def replay_src(case, host, assign):
    return (REPLAY_PRELUDE + host.before_src + "\nfrom checks import c08\nfrom checks.gencommon import concrete_values\n"
            f"case={case!r}\noperands={host.operands!r}\nassign={assign!r}\nbefore=circ.netlist_of(c)\nbad=[]\n"
            "try:\n    res=c08.invoke(case, c, operands)\nexcept Exception as e:\n    print('raised', type(e).__name__, e); sys.exit(1)\n"
            "after=circ.netlist_of(c)\n"
            "if any(l not in after for l in res): bad.append('returned label is not a gate')\n"
            "if any(after.get(k)!=v for k,v in before.items()): bad.append('pre-existing gate changed')\n"
            "if len(res)!=c08.expected_len(case): bad.append(('length', len(res), c08.expected_len(case)))\n"
            "if not bad:\n"
            "    be=case.get('big_endian', False)\n"
            "    allv=concrete_values(c, assign, list(dict.fromkeys([x for ops in operands for x in ops]+list(res))))\n"
            "    val=lambda labs: sum(int(bool(allv[x]))<<i for i,x in enumerate(c08.le(labs, be)))\n"
            "    a=val(operands[0]); b=val(operands[1]) if len(operands)>1 else a\n"
            "    got=val(res); exp=(a*b) % (1<<len(res))\n"
            "    if got!=exp: bad.append(('product', a, b, got, exp))\n"
            "    if a*b >= (1<<len(res)): bad.append(('result does not fit', a, b, len(res)))\n"
            "print(bad)\nsys.exit(1 if bad else 0)\n")


def used_before(case, host):
    """History: the same multiplier was already generated in this circuit, its high result bits were dropped and the
    gates nobody reads were removed; the host is re-snapshotted, so the measured call is the second one."""
    try:
        res = list(_invoke(case, host.c, [list(o) for o in host.operands]))
    except Exception:  # noqa: BLE001
        return
    used = {x for ops in host.operands for x in ops}
    keep = set(host.c.outputs) | set(res[: max(1, len(res) // 2)]) | used | set(host.c.inputs)
    progress = True
    while progress:
        progress = False
        for l in list(host.c.gates):
            if l not in keep and not host.c.get_gate_users(l):
                host.c.remove_gate(l)
                progress = True
    host.refresh()


def check_case(p, case, rnd, timeout_ms):
    host = gencommon.Host(case.get("host", "fresh"), case["widths"], rnd)
    be = case.get("big_endian", False)
    if case.get("history") == "remove-and-call-again":
        used_before(case, host)
    desc = f"{case} in {host.before_desc}"
    p.case(("c08", repr(sorted(case.items()))), sample=desc if len(p.samples) < 3 else None)
    outs_before = list(host.c.outputs)
    key = f"{case['kind']}:{case['mode']}{':BE' if be else ''}"
    TWIN_CALLS.clear()
    try:
        res = invoke(case, host.c, host.operands)
        if sum(TWIN_CALLS.values()) > 1:
            p.count("twin_cases_with_recursion")
            p.count("twin_recursive_calls", sum(TWIN_CALLS.values()) - 1)
    except Exception as e:  # noqa: BLE001
        p.violation(f"mul:{key}:raises:{type(e).__name__}", f"{desc} raised {type(e).__name__}: {e}", replay_src(case, host, {}))
        return
    probs, new = host.structural_problems(res, expect_outputs=outs_before)
    if len(res) != expected_len(case):
        probs.append(f"result has {len(res)} bits, documented {expected_len(case)}")
    assign = {}
    if not probs:
        zs = host.cut_assignment()
        terms = host.terms(le(res, be), zs)
        w = len(res)
        a = gencommon.bv([zs[l] for l in le(host.operands[0], be)], w)
        b = gencommon.bv([zs[l] for l in le(host.operands[1], be)], w) if len(host.operands) > 1 else a
        out = gencommon.bv([t for t, u in terms], w)
        # the product must fit: compare in double width as well
        W = 2 * max(w, 2)
        fits = gencommon.bv([zs[l] for l in le(host.operands[0], be)], W) * (
            gencommon.bv([zs[l] for l in le(host.operands[1], be)], W) if len(host.operands) > 1 else gencommon.bv([zs[l] for l in le(host.operands[0], be)], W)
        ) == z3.ZeroExt(W - w, out)
        r, m = p.check([z3.Or(out != a * b, z3.Not(fits), *[u for t, u in terms])], timeout_ms=timeout_ms, label=f"mul {case}")
        if r == "sat":
            assign = gencommon.model_values(m, zs)
            probs.append("product is wrong for some operand values")
        elif r == "unsat":
            if p.canaries_run < 1:
                r2, _ = p.check([out != a * b + 1], label="canary")
                p.canary(r2 == "sat")
            if host.kind != "fresh":
                r3, _ = p.check([z3.Or(*host.old_gates_unchanged_query())], label="old gates")
                if r3 == "sat":
                    probs.append("a pre-existing gate changed its function")
    if probs:
        if not assign:
            assign = {l: False for l in host.cut_assignment()}
        p.violation(f"mul:{key}:{probs[0].split(' ')[0]}", f"{desc}: {probs[:3]}", replay_src(case, host, assign))


def check_generate(p, case, timeout_ms):
    """generate_mul / generate_square wrappers: interface + product."""
    be = case.get("big_endian", False)
    p.case(("c08gen", repr(sorted(case.items()))), sample=f"{case}" if len(p.samples) < 4 else None)
    src = (REPLAY_PRELUDE + "from checks import c08\nimport itertools, random\n" + f"case={case!r}\n"
           "c=c08.generate(case)\nbad=circ.wf_problems(c)\nw=case['widths']; be=case.get('big_endian', False)\n"
           "if len(c.outputs)!=c08.expected_len(case): bad.append(('length', len(c.outputs)))\n"
           "if len(c.inputs)!=sum(w): bad.append('inputs')\n"
           "rnd=random.Random(1)\n"
           "xs=list(itertools.product((False,True), repeat=sum(w))) if sum(w)<=12 else [[rnd.random()<.5 for _ in range(sum(w))] for _ in range(3000)]\n"
           "for x in xs:\n"
           "    v=c.evaluate(list(x)); val=lambda bits: sum(int(b)<<i for i,b in enumerate(bits[::-1] if be else bits))\n"
           "    a=val(list(x[:w[0]])); b=val(list(x[w[0]:])) if len(w)>1 else a\n"
           "    if val(list(v))!=a*b: bad.append(('product',a,b,val(list(v)))); break\n"
           "print(bad); sys.exit(1 if bad else 0)\n")
    try:
        c = generate(case)
    except Exception as e:  # noqa: BLE001
        p.violation(f"mul:generate:{case['kind']}:{case['mode']}:raises:{type(e).__name__}", f"{case} raised {type(e).__name__}: {e}", src)
        return
    probs = list(circ.wf_problems(c))
    w = case["widths"]
    if len(c.outputs) != expected_len(case):
        probs.append(f"{len(c.outputs)} outputs, documented {expected_len(case)}")
    if len(c.inputs) != sum(w):
        probs.append("number of inputs")
    if not probs:
        zs = [z3.Bool(f"i{k}") for k in range(sum(w))]
        ev = [symeval.lift(v) for v in c.evaluate([symeval.SymState(z, False) for z in zs])]
        W = len(ev)
        a = gencommon.bv(le(zs[:w[0]], be), W)
        b = gencommon.bv(le(zs[w[0]:], be), W) if len(w) > 1 else a
        out = gencommon.bv(le([symeval.zb(t.t) for t in ev], be), W)
        r, m = p.check([z3.Or(out != a * b, *[symeval.zb(t.u) for t in ev])], timeout_ms=timeout_ms, label=f"gen {case}")
        if r == "sat":
            probs.append("product is wrong for some operand values")
    if probs:
        p.violation(f"mul:generate:{case['kind']}:{case['mode']}{':BE' if be else ''}:{probs[0].split(' ')[0]}", f"{case}: {probs[:3]}", src)


def generate(case):
    """The wrapper is called twice and the first result is edited in place by its owner: the second result must
    be a fresh circuit (a generated circuit is the caller's to change)."""
    first = _generate_once(case)
    if first.outputs:
        first.set_outputs(list(first.outputs)[:1])
    if first.gates:
        lab = list(first.gates)[-1]
        if not first.get_gate_users(lab) and lab not in first.outputs and lab not in first.inputs:
            first.remove_gate(lab)
    return _generate_once(case)


def _generate_once(case):
    be = case.get("big_endian", False)
    if case["kind"] == "mul":
        return A.generate_mul(case["widths"][0], case["widths"][1], type=M.MulMode(case["mode"]), big_endian=be)
    return A.generate_square(case["widths"][0], type=SQ.SquareMode(case["mode"]), big_endian=be)


def concrete_mismatch(kind, mode, widths, tries=3000, seed=1, big_endian=False):
    """Concrete search for a wrong product at true width (used to confirm a compositional failure)."""
    import random as _r

    rnd = _r.Random(seed)
    if kind == "square":
        c = A.generate_square(widths[0], type=SQ.SquareMode(mode), big_endian=big_endian)
    elif mode == "KARATSUBA_PLAIN":
        from cirbo.core.circuit import Circuit

        c = Circuit.bare_circuit(sum(widths))
        c.set_outputs(A.add_mul_karatsuba(c, c.inputs[:widths[0]], c.inputs[widths[0]:]))
    else:
        c = A.generate_mul(widths[0], widths[1], type=M.MulMode(mode))
    n = widths[0]
    total = sum(widths)
    pats = [[True] * total, [False] * total, [True] * n + [False] * (total - n), [i % 2 == 0 for i in range(total)], [i % 2 == 1 for i in range(total)]]
    pats += [[True] * total for _ in range(1)]
    for i in range(total):
        x = [True] * total
        x[i] = False
        pats.append(x)
    pats += [[rnd.random() < pr for _ in range(total)] for pr in (0.5, 0.9, 0.1, 0.75) for _ in range(tries // 4)]
    for x in pats:
        a = sum(int(v) << i for i, v in enumerate(x[:n][::-1] if big_endian else x[:n]))
        b = sum(int(v) << i for i, v in enumerate(x[n:])) if len(widths) > 1 else a
        res = list(c.evaluate(list(x)))
        got = sum(int(bool(v)) << i for i, v in enumerate(res[::-1] if big_endian else res))
        if got != a * b:
            return x, a, b, got
    return None


def compositional_unit(p, item, tier, seed):
    from checks import c08_comp

    kind, mode, widths, max_leaf_bits, leaf_to = item
    be = kind == "square-BE"
    kind = "square" if be else kind
    if kind == "mul":
        probs, stats = c08_comp.karatsuba_true_width(p, mode, widths[0], widths[1], max_leaf_bits=max_leaf_bits, leaf_timeout_ms=leaf_to)
    else:
        probs, stats = c08_comp.square_true_width(p, widths[0], big_endian=be)
    p.case(("c08-comp", kind, mode, tuple(widths)), sample=f"compositional true-width {kind} {mode} {widths}: {stats}")
    for k, v in stats.items():
        if isinstance(v, int):
            p.count(f"comp_{k}", v)
    hard = [x for x in probs if "inconclusive" not in x]
    for x in probs:
        if "inconclusive" in x:
            p.inconclusive.append(x)
    if hard:
        mm = concrete_mismatch(kind, mode, widths, big_endian=be)
        if mm is None:
            # the compositional argument failed but no concrete wrong product was found: not reported as a violation
            p.inconclusive.append(f"compositional check of {kind} {mode} {widths} failed ({hard[0]}) but 3000 targeted concrete operand pairs multiply correctly")
            p.queries["unknown"] += 1
            return
        x, a, b, got = mm
        p.violation(f"mul:true-width:{kind}:{mode}{':BE' if be else ''}", f"{kind} {mode} {widths}: {hard[:2]}; concrete witness {a} * {b} gives {got}",
                    REPLAY_PRELUDE + "from checks import c08\n" + f"mm=c08.concrete_mismatch({kind!r}, {mode!r}, {widths!r}, big_endian={be!r})\nprint(mm and mm[1:])\nsys.exit(1 if mm else 0)\n")


def linear_unit(p, item, tier, seed):
    from checks import c08_lin

    kind, mode, n, m, be = item
    # DEFAULT compresses with (x, x^y) pairs: its inner blocks are recorded instead of the one weighted-sum call
    probs, stats, wit = c08_lin.conservation(p, kind, mode, n, m, be, block_timeout_ms=600000 if tier == "thorough" else 120000, deep=(mode == "DEFAULT"))
    p.case(("c08-lin", kind, mode, n, m, be), sample=f"linear conservation {kind} {mode} {n}x{m} big_endian={be}: {stats}")
    for k, v in stats.items():
        p.count(f"lin_{k}", v)
    hard = [x for x in probs if "inconclusive" not in x]
    for x in probs:
        if "inconclusive" in x:
            p.inconclusive.append(f"{kind} {mode} {n}x{m}: {x}")
    if not hard:
        return
    replay = (REPLAY_PRELUDE + "from checks import c08_lin\n" + f"kind, mode, n, m, be = {item!r}\n" + "av, bv = @WIT@\n"
              "got, nbits = c08_lin.concrete_product(kind, mode, n, m, be, av, bv)\nwant = av * (bv if kind == 'mul' else av)\n"
              "print(hex(av), hex(bv), hex(got), hex(want))\nsys.exit(1 if got != want else 0)\n")
    if wit is not None:
        got, _ = c08_lin.concrete_product(kind, mode, n, m, be, wit[0], wit[1])
        if got != wit[0] * (wit[1] if kind == "mul" else wit[0]):
            p.violation(f"mul:linear:{kind}:{mode}{':BE' if be else ''}", f"{kind} {mode} {n}x{m}: {hard[:2]}; operands {hex(wit[0])}, {hex(wit[1])} give {hex(got)}", replay.replace('@WIT@', repr(wit)))
            return
    mm = concrete_mismatch(kind, mode, [n, m] if kind == "mul" else [n], big_endian=be)
    if mm is None:
        p.inconclusive.append(f"linear conservation of {kind} {mode} {n}x{m} failed ({hard[0]}) but no concrete wrong product was found")
        p.queries["unknown"] += 1
        return
    x, a, b, got = mm
    p.violation(f"mul:linear:{kind}:{mode}{':BE' if be else ''}", f"{kind} {mode} {n}x{m}: {hard[:2]}; concrete witness {a} * {b} gives {got}",
                REPLAY_PRELUDE + "from checks import c08\n" + f"mm=c08.concrete_mismatch({kind!r}, {mode!r}, {([n, m] if kind == 'mul' else [n])!r}, big_endian={be!r})\nprint(mm and mm[1:])\nsys.exit(1 if mm else 0)\n")


def make_cases(tier, rnd):
    thorough = tier == "thorough"
    cases = []
    hosts = ["fresh", "fresh", "host", "repeat", "literal-labels"]
    grid = 8 if thorough else 5
    diag = 8 if thorough else 7
    for mode in MUL_MODES:
        for n in range(1, grid + 1):
            for m in range(1, grid + 1):
                if not thorough and n + m > 8:
                    continue
                be = bool((n + m + len(mode)) % 2)
                cases.append(dict(kind="mul", mode=mode, widths=[n, m], big_endian=be, host=rnd.choice(hosts) if n + m <= 8 else "fresh"))
                if (n * 7 + m) % 5 == 0:
                    cases.append(dict(kind="mul", mode=mode, widths=[n, m], big_endian=not be, gen=True))
        for n in range(grid + 1, diag + 1):
            cases.append(dict(kind="mul", mode=mode, widths=[n, n], big_endian=False, host="fresh"))
    # very unbalanced widths (narrow times wide): the partial-product matrix is a thin band
    wide = 14 if thorough else 12
    for mode in MUL_MODES:
        for small in (1, 2, 3):
            for big in range(6 if small > 1 else 9, wide + 1):
                if not thorough and (big + small + len(mode)) % 2:
                    continue
                for n, m in ((small, big), (big, small)):
                    cases.append(dict(kind="mul", mode=mode, widths=[n, m], big_endian=bool((n + len(mode)) % 2), host="fresh"))
    for mode in MUL_MODES:
        for n in (2, 4, 6):
            cases.append(dict(kind="mul", mode=mode, widths=[n, n], big_endian=bool(n % 4), host="repeat2", alias=True))
        for n, hk in ((3, "rotated2"), (4, "rotated2"), (4, "reversed2"), (5, "reversed2"), (3, "other-repeats2"), (5, "other-repeats2")):
            cases.append(dict(kind="mul", mode=mode, widths=[n, n], big_endian=bool((n + len(hk)) % 2), host=hk))
    for mode in MUL_MODES:
        for wd in ([2, 9], [2, 12], [12, 2], [3, 3]) + (([3, 13], [2, 14], [5, 5]) if thorough else ()):
            cases.append(dict(kind="mul", mode=mode, widths=list(wd), big_endian=bool(wd[0] % 2), host="fresh", history="another-circuit-first"))
    for mode in SQ_MODES:
        cases.append(dict(kind="square", mode=mode, widths=[5], host="fresh", history="another-circuit-first"))
    for mode in MUL_MODES:
        cases.append(dict(kind="mul", mode=mode, widths=[3, 3], host="fresh", history="remove-and-call-again"))
        cases.append(dict(kind="mul", mode=mode, widths=[4, 2], big_endian=True, host="host", history="remove-and-call-again"))
    for mode in SQ_MODES:
        cases.append(dict(kind="square", mode=mode, widths=[4], host="fresh", history="remove-and-call-again"))
    cases.append(dict(kind="mul_public", mode="KARATSUBA_PLAIN", widths=[5, 4], big_endian=True, host="host"))
    cases.append(dict(kind="mul_public", mode="KARATSUBA_PLAIN", widths=[6, 6], host="fresh"))
    if thorough:
        for mode in MUL_MODES:
            cases.append(dict(kind="mul", mode=mode, widths=[9, 9], host="fresh", heavy=True))
    for mode in SQ_MODES:
        for n in range(1, (17 if thorough else 14) + 1):
            cases.append(dict(kind="square", mode=mode, widths=[n], big_endian=bool(n % 2), host=rnd.choice(hosts) if n <= 8 else "fresh"))
            if n % 3 == 0:
                cases.append(dict(kind="square", mode=mode, widths=[n], big_endian=bool((n + 1) % 2), gen=True))
    # threshold-shrunk twins: recursion, padding, recombination, truncation at small widths
    for mode in ("KARATSUBA", "KARATSUBA_PLAIN"):
        for n in range(1, (8 if thorough else 7) + 1):
            for m in sorted({1, 2, max(1, n - 1), n, min(8, n + 1), min(8, n + 3)}):
                if not thorough and n + m > 13:
                    continue
                cases.append(dict(kind="twin_mul", mode=mode, widths=[n, m], big_endian=bool((n + m) % 2), host="fresh" if n + m > 8 else rnd.choice(hosts)))
    for n in range(1, (12 if thorough else 10) + 1):
        cases.append(dict(kind="twin_square", mode="DEFAULT", widths=[n], big_endian=bool(n % 2), host="fresh"))
    return cases


def unit(p, item, tier, seed):
    rnd = random.Random(item["seed"])
    for case in item["cases"]:
        to = 900000 if case.get("heavy") else 240000
        if case.get("gen"):
            check_generate(p, case, to)
        else:
            check_case(p, case, rnd, to)


def run(rep, tier, seed, only=None):
    symeval.install()
    mt, st, hits = twins()
    if hits[0] < 8 or hits[1] < 2:
        rep.error(f"threshold rewriting found only {hits} guard literals; the twins would not exercise the recursion")
    rep.functions = ["multiplication.add_mul / add_mul_alter / add_mul_dadda / add_mul_wallace / add_mul_pow2_m1 / last_step_sum_with_new_powers_sum",
                     "add_mul_karatsuba / add_mul_karatsuba_with_efficient_sum (real at true widths below the thresholds; threshold-shrunk twin for the recursion)",
                     "square.add_square (twin for the split) / add_square_pow2_m1", "generate_mul / generate_square"]
    rep.bounds = {"(n,m)": "all pairs with n+m<=8 and widths<=5 + diagonal to 7x7 (quick); all <=8x8 + 9x9 per mode (thorough)",
                  "squares": "monolithic n<=14 (quick) / <=17 (thorough); wider ones compositionally", "twins": f"guards 20->6, 18->4 ({hits[0]} literals), 48->4, [49,53]->[5] ({hits[1]} literals); widths <= 8 (mul), <= 12 (square)"}
    rep.outside = ["MulMode.ALTER above the directly decided widths (it drops carries that are zero only for magnitude reasons, which the integer conservation argument cannot see)",
                   "monolithic true-width equivalence of the recursive multipliers (out of the solver's reach; decided compositionally instead); leaves whose operand list repeats a gate (padding) fall back to 'assumed' and are counted in the evidence",
                   "widths above the listed ones"]
    rep.rule = "case = (mode, widths, endianness, host kind); operand values quantified by z3 (out == bvmul, product fits)"
    rep.explanation = "z3 decides out == a*b for all operand values per enumerated configuration"
    rnd = random.Random(seed)
    cases = make_cases(tier, rnd)
    if only:
        cases = [c for c in cases if only in c["kind"] + ":" + c["mode"]]
    # heavy cases first, alone
    heavy = [c for c in cases if c.get("heavy") or sum(c["widths"]) >= 14]
    light = [c for c in cases if c not in heavy]
    rnd.shuffle(light)
    work = [dict(seed=seed * 1000 + i, cases=[c]) for i, c in enumerate(heavy)]
    work += [dict(seed=seed * 1000 + 500 + i, cases=light[i::48]) for i in range(48)]
    rep.pmap(unit, [w for w in work if w["cases"]])
    if only is None or "comp" in only:
        thorough = tier == "thorough"
        comp = [("mul", "KARATSUBA", [18, 18]), ("mul", "KARATSUBA_PLAIN", [18, 18]), ("mul", "KARATSUBA", [20, 20]), ("mul", "KARATSUBA", [21, 21]),
                ("mul", "KARATSUBA_PLAIN", [23, 17]), ("square", "DEFAULT", [48]), ("square", "DEFAULT", [50]), ("square-BE", "DEFAULT", [48])]
        if thorough:
            comp += [("mul", md, [n, m]) for md in ("KARATSUBA", "KARATSUBA_PLAIN") for n, m in ((19 + k, 19 + k) for k in range(1, 8))]
            comp += [("mul", "KARATSUBA", [24, 15]), ("mul", "KARATSUBA", [14, 25]), ("mul", "KARATSUBA", [36, 36]), ("mul", "KARATSUBA", [40, 40]), ("mul", "KARATSUBA_PLAIN", [42, 43]),
                     ("square", "DEFAULT", [51]), ("square", "DEFAULT", [56]), ("square", "DEFAULT", [64])]
        rep.pmap(compositional_unit, [(k, md, w, 18 if thorough else 12, 900000 if thorough else 30000) for k, md, w in comp])
        lin = [("mul", "POW2_M1", 25, 25, False), ("mul", "POW2_M1", 32, 32, True), ("mul", "POW2_M1", 40, 24, False), ("mul", "POW2_M1", 7, 33, True),
               ("mul", "WALLACE", 2, 30, False), ("mul", "WALLACE", 2, 44, True), ("mul", "WALLACE", 31, 2, False), ("mul", "WALLACE", 3, 40, False), ("mul", "WALLACE", 24, 24, True),
               ("mul", "WALLACE", 33, 5, False), ("mul", "DADDA", 24, 24, False), ("mul", "DADDA", 2, 40, True), ("mul", "DADDA", 32, 32, False), ("mul", "DADDA", 17, 40, True),
               ("square", "POW2_M1", 15, 15, True), ("square", "POW2_M1", 18, 18, False), ("square", "POW2_M1", 20, 20, True), ("square", "POW2_M1", 25, 25, False), ("square", "POW2_M1", 32, 32, True), ("square", "POW2_M1", 40, 40, False),
               ("mul", "DEFAULT", 12, 12, False), ("mul", "DEFAULT", 24, 24, True), ("mul", "DEFAULT", 32, 32, False), ("mul", "DEFAULT", 3, 40, True), ("mul", "DEFAULT", 33, 9, False)]
        if thorough:
            lin += [("mul", md, n, n, bool(n % 2)) for md in ("POW2_M1", "DADDA", "DEFAULT") for n in (16, 20, 26, 31, 33, 48, 63, 64)]
            lin += [("mul", "WALLACE", n, n, bool(n % 2)) for n in (16, 20, 26, 31, 33, 40, 48)]
            lin += [("mul", md, a, b, bool((a + b) % 2)) for md in ("POW2_M1", "DADDA", "WALLACE", "DEFAULT") for a, b in ((2, 64), (64, 2), (3, 63), (5, 50), (50, 6), (31, 64), (64, 31))]
            lin += [("mul", "WALLACE", 2, b, False) for b in range(9, 64)]
            lin += [("square", "POW2_M1", n, n, bool(n % 2)) for n in (16, 31, 33, 48, 63, 64)]
        rep.pmap(linear_unit, lin)
        rep.bounds["wide column compression (linear conservation)"] = ("POW2_M1 25x25..40x24, Wallace 2x30..33x5 and 24x24, Dadda 24x24..32x32, DEFAULT 12x12..32x32 (inner MDFA/Stockmeyer blocks with virtual pair bits), squarer POW2_M1 25..40 (quick); up to 64x64 and all 2xk, k<=63 (thorough): "
                                                                        "every summation block exact (bit-vectors over the real gates) + integer conservation of partial products and carries")
        rep.bounds["true-width recursion (compositional)"] = ("Karatsuba 18x18, 20x20, 21x21, 23x17 and squarer 48, 50 (quick); 20..26, 24x15, 14x25, 36, 40, 42x43, squares 51, 56, 64 (thorough): "
                                                              "recombination + wiring + algebra lemma discharged per recursive node; every leaf multiplier / half squarer proved in situ (direct bit-vector query when small, linear conservation over its own recorded blocks otherwise)")
