"""Shared by C03 / C18: pass specifications and circuit families for the passes."""
import random

from vlib import circgen

from cirbo.core.circuit import gate as G
from cirbo.core.circuit.transformer import Transformer
from cirbo.minimization.simplification import (  # noqa: F401
    cleanup, MergeDuplicateGates, MergeEquivalentGates, MergeUnaryOperators, RemoveRedundantGates,
)

NS = dict(
    iter=iter,
    TC=__import__("cirbo.core.circuit.transformer", fromlist=["TransformerComposition"]).TransformerComposition,
    RRG=RemoveRedundantGates, MU=MergeUnaryOperators, MD=MergeDuplicateGates, ME=MergeEquivalentGates,
    Transformer=Transformer, cleanup=cleanup,
)

IMPORTS = (
    "from cirbo.core.circuit.transformer import Transformer, TransformerComposition as TC\n"
    "from cirbo.minimization.simplification import cleanup, MergeDuplicateGates as MD, MergeEquivalentGates as ME, "
    "MergeUnaryOperators as MU, RemoveRedundantGates as RRG\n"
)

BASIC = ["RRG()", "RRG(allow_inputs_removal=True)", "MU()", "MD()", "ME()"]
# apply_transformers documents an Iterable of passes: the same lists handed over as one-shot iterators
ONE_SHOT = ["iter([MU(), MD()])", "iter([RRG(), RRG(allow_inputs_removal=True)])", "iter([MD(), MU(), RRG()])", "iter([ME()])"]


# compositions built through the public constructor (a pass may stand twice in a row: not every pass is idempotent)
CONSTRUCTED = ["TC([MU(), MU()])", "TC([MU(), MU(), MD()])", "TC([MD(), MD(), MU(), MU()])", "TC([TC([MU()]), MU()])", "(TC([MU(), MU()]) | RRG())"]


def is_pipeline_object(obj):
    return isinstance(obj, list) or hasattr(obj, "__next__")


def pass_specs(thorough, rnd):
    specs = list(BASIC)
    two = [f"({a} | {b})" for a in BASIC for b in BASIC]
    three = [f"({a} | {b} | {c})" for a in BASIC for b in BASIC for c in BASIC]
    lists = [f"[{a}, {b}]" for a in BASIC for b in BASIC] + [f"[{a} | {b}, {c}]" for a in BASIC[2:] for b in BASIC[:3] for c in BASIC[2:]]
    nested = ["((MU() | MD()) | (RRG() | ME()))", "(RRG() | (RRG() | RRG()))", "[RRG(), RRG(), MU(), MU()]",
              "(MD() | (MU() | RRG(allow_inputs_removal=True)))"]
    specs += ["cleanup(False)", "cleanup(True)"] + nested + ONE_SHOT + CONSTRUCTED
    if thorough:
        specs += two + rnd.sample(three, 40) + lists
    else:
        specs += rnd.sample(two, 8) + rnd.sample(three, 5) + rnd.sample(lists, 5)
    return specs


_OBJECTS = {}


def apply_spec(spec, c, reuse=False):
    """reuse=True keeps one transformer object per spec for the whole process (a pass object
    must be reusable: applying it to one circuit must not influence the next application)."""
    if spec.startswith("cleanup("):
        return cleanup(c, use_heavy=spec == "cleanup(True)")
    if reuse and not spec.startswith("iter("):
        if spec not in _OBJECTS:
            _OBJECTS[spec] = eval(spec, dict(NS))  # noqa: S307
        obj = _OBJECTS[spec]
    else:
        obj = eval(spec, dict(NS))  # noqa: S307 - fixed vocabulary above
    if is_pipeline_object(obj):
        return Transformer.apply_transformers(c, obj)
    return obj.transform(c)


APPLY_SRC = (
    "def apply_spec(spec, c, reuse=False):\n"
    "    if spec.startswith('cleanup('):\n"
    "        return cleanup(c, use_heavy=spec == 'cleanup(True)')\n"
    "    obj = eval(spec)\n"
    "    if isinstance(obj, list) or hasattr(obj, '__next__'):\n"
    "        return Transformer.apply_transformers(c, obj)\n"
    "    return obj.transform(c)\n"
)


def pass_circuits(seed, count, max_inputs=5, max_gates=12):
    """Feature circuits + seeded random DAGs rich in unary chains / duplicates / dead logic."""
    out = list(circgen.feature_circuits())
    if seed % 8 == 0:
        out += circgen.large_circuits(seed)
    rnd = random.Random(seed)
    pools = [
        None,
        [G.NOT, G.LNOT, G.RNOT, G.AND, G.OR, G.XOR, G.NAND],
        [G.IFF, G.LIFF, G.RIFF, G.AND, G.NOR, G.NXOR, G.GT],
        [G.NOT, G.IFF, G.AND, G.OR, G.ALWAYS_TRUE, G.ALWAYS_FALSE],
        [G.AND, G.OR, G.GT, G.LT, G.GEQ, G.LEQ],
    ]
    for i in range(count):
        pool = pools[i % len(pools)]
        c = circgen.random_circuit(rnd, rnd.randint(1, max_inputs), rnd.randint(1, max_gates), pool=pool,
                                   max_arity=rnd.choice([2, 3, 4]), n_outputs=rnd.randint(0 if i % 11 == 0 else 1, 4), dup_bias=0.3 if i % 2 else 0.0,
                                   shuffle_storage=bool(i % 3 == 0))
        out.append((f"seeded[{seed}:{i}]", c))
    return out
