"""Child process of C04 (thorough): runs a slice under a fixed PYTHONHASHSEED and prints a pickled Partial."""
import base64
import os
import pickle
import sys

sys.dont_write_bytecode = True
VERIF = os.path.dirname(os.path.dirname(os.path.abspath(__file__)))
sys.path.insert(0, VERIF)
from vlib import env, report, symeval  # noqa: E402

env.setup()
symeval.install()
from checks import c04  # noqa: E402

seed = int(os.environ.get("VERIF_SEED", "0"))
rep = report.Report("C04", "thorough", seed, c04.LEVEL)
rep.pmap(c04.unit, [seed * 61 + 1000 + s for s in range(8)], may_fork=True)
p = report.Partial()
p.merge(rep)
print(base64.b64encode(pickle.dumps(p)).decode())
