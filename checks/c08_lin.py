"""C08, wide column-compression multipliers and squarers, decided *compositionally* (linear conservation).

The real generator (add_mul / add_mul_alter / add_mul_dadda / add_mul_wallace / add_mul_pow2_m1 /
add_square_pow2_m1) runs at its real width (25x25, 2x44, 32x32 ...), far beyond what one
bit-vector equivalence query can decide.  Every *outermost* call of a summation primitive
(add_sum2, add_sum3, add_sum_n_bits, add_sum_n_weighted_bits, add_sum_two_numbers[_with_shift])
made by the generator is recorded with its operand and result labels and their weights.

  L1  every recorded block is exact: from free values on its operand labels, z3 (bit-vectors over
      the *real* gates of the block) decides  sum 2^lev*out == sum 2^w*in.  Blocks with the same
      gate-level structure are decided once.
  L2  conservation: every partial-product gate is classified by z3 (equivalence with a_j & b_i);
      then, over integers in [0,1] for every label, with one linear equation per recorded block
      (justified by L1), z3 decides   sum 2^i*res_i + 2^N*(carries left over at weight >= N) == sum 2^(i+j)*p_ij.
      Any partial product used twice or never, any carry fed into the wrong column or dropped below
      weight N makes the query satisfiable, and the model is a concrete operand pair (replayed).
  L3  res < 2^N and a*b < 2^N, so the left-over high carries are zero and res == a*b   (z3 Int lemma).
L1 for every block + L2 + L3  =>  the product is exact for all operand values.
"""
import z3

from vlib import circ, symeval
from checks import gencommon
from checks.c08_comp import _eval

from cirbo.core.circuit import Circuit
from cirbo.synthesis.generation.arithmetics import multiplication as M, square as SQ, summation as S

PRIMS = {"add_sum2": "bits", "add_sum3": "bits", "add_sum_n_bits": "bits", "add_sum_n_weighted_bits": "weighted",
         "add_sum_two_numbers_with_shift": "shift", "add_sum_two_numbers": "two"}


class Rec:
    def __init__(self, name, ins, outs, cuts=()):
        self.name, self.ins, self.outs, self.cuts = name, ins, outs, list(cuts)  # [(relative weight, label)]; extra cut labels


DEEP_PRIMS = {"add_mdfa": "mdfa", "add_simplified_mdfa": "smdfa", "add_stockmeyer_block": "stock", "add_sum2": "bits", "add_sum3": "bits",
              "add_sum2_aig": "bits", "add_sum3_aig": "bits", "add_gate_from_tt": "inline"}


def Y(x, xy):
    """The bit a pair (x, x^y) stands for besides x: y = x ^ xy (it is the output of no gate)."""
    return ("Y", x, xy)


class LinRecorder:
    def __init__(self, deep=False):
        self.records, self.depth, self.saved, self.deep = [], 0, [], deep
        self.alias = {}  # Y(a, a^b) is the real gate b
        self.pair_gates = []  # (a, b, xy) to be verified: xy == a ^ b

    def __enter__(self):
        if self.deep:
            for name, kind in DEEP_PRIMS.items():
                orig = getattr(S, name)
                self.saved.append((S, name, orig))
                setattr(S, name, self._wrap_deep(orig, name, kind))
            return self
        for mod in (M, SQ, S):
            for name, kind in PRIMS.items():
                if mod is S and name != "add_sum_n_bits":
                    continue  # inside summation only the blocks add_sum_pow2_m1 is made of are primitives
                if not hasattr(mod, name):
                    continue
                orig = getattr(mod, name)
                self.saved.append((mod, name, orig))
                setattr(mod, name, self._wrap(orig, name, kind))
        return self

    def __exit__(self, *exc):
        for mod, name, orig in self.saved:
            setattr(mod, name, orig)
        return False

    def _wrap_deep(self, orig, name, kind):
        def wrapper(circuit, *args):
            if self.depth:
                return orig(circuit, *args)
            self.depth += 1
            try:
                out = orig(circuit, *args)
            finally:
                self.depth -= 1
            if kind == "inline":
                a, b, op = args
                if op == "0110":
                    self.alias[Y(a, out)] = b
                    self.alias.setdefault(Y(b, out), a)
                    self.pair_gates.append((a, b, out))
                elif op == "0010":
                    self.records.append(Rec("pair->bit+carry", [(0, a), (0, Y(a, b))], [(0, b), (1, out)]))
                elif op == "0000":
                    self.records.append(Rec("zero", [], [(0, out)], cuts=[a, b]))
                else:
                    self.records.append(Rec(f"unrecognised inline gate {op}", [(0, a), (0, b)], [(0, out)]))
                return out
            ins = list(args[0])
            if kind == "mdfa":
                z, x1, xy1, x2, xy2 = ins
                rec = Rec(name, [(0, z), (0, x1), (0, Y(x1, xy1)), (0, x2), (0, Y(x2, xy2))], [(0, out[0]), (1, out[1]), (1, Y(out[1], out[2]))])
            elif kind == "smdfa":
                x1, xy1, x2, xy2 = ins
                rec = Rec(name, [(0, x1), (0, Y(x1, xy1)), (0, x2), (0, Y(x2, xy2))], [(0, out[0]), (1, out[1]), (1, Y(out[1], out[2]))])
            elif kind == "stock":
                x1, x2, x23 = ins
                rec = Rec(name, [(0, x1), (0, x2), (0, Y(x2, x23))], [(0, out[0]), (1, out[1])])
            else:
                rec = Rec(name, [(0, l) for l in ins], list(enumerate(out)))
            self.records.append(rec)
            return out

        return wrapper

    def _wrap(self, orig, name, kind):
        def wrapper(circuit, *args, **kw):
            if self.depth:
                return orig(circuit, *args, **kw)
            args = [list(a) if not isinstance(a, int) else a for a in args]
            self.depth += 1
            try:
                out = orig(circuit, *args, **kw)
            finally:
                self.depth -= 1
            be = bool(kw.get("big_endian"))
            rev = (lambda x: list(x)[::-1]) if be else list
            if kind == "bits":
                ins, outs = [(0, l) for l in args[0]], list(enumerate(rev(out)))
            elif kind == "weighted":
                ins, outs = [(w, l) for w, l in args[0]], [(w, l) for w, l in out]
            else:
                shift, a, b = (args[0], args[1], args[2]) if kind == "shift" else (0, args[0], args[1])
                ins = list(enumerate(rev(a))) + [(shift + i, l) for i, l in enumerate(rev(b))]
                outs = list(enumerate(rev(out)))
            self.records.append(Rec(name, ins, outs))
            return out

        return wrapper


def _labels(entry):
    return entry[1:] if isinstance(entry, tuple) else (entry,)


def block_key(c, rec, ident=None):
    """Gate-level structure of a recorded block, independent of labels (`ident`: labels to be identified)."""
    ident = ident or {}
    pos = {}
    for w, e in rec.ins:
        for l in _labels(e):
            pos.setdefault(ident.get(l, l), len(pos))
    for l in rec.cuts:
        pos.setdefault(ident.get(l, l), len(pos))
    ids, items = {}, []

    def visit(l):
        if ident.get(l, l) in pos:
            return ("in", pos[ident.get(l, l)])
        if l in ids:
            return ("g", ids[l])
        g = c.gates[l]
        ops = tuple(visit(o) for o in g.operands)
        ids[l] = len(ids)
        items.append((g.gate_type.name, ops))
        return ("g", ids[l])

    outs = tuple((lev, tuple(visit(l) for l in _labels(e))) for lev, e in rec.outs)
    return (rec.name, tuple((w, tuple(pos[ident.get(l, l)] for l in _labels(e))) for w, e in rec.ins), tuple(items), outs)


def check_block(p, c, rec, timeout_ms):
    cuts = {}
    for w, e in rec.ins:
        for l in _labels(e):
            cuts.setdefault(l, z3.Bool(f"blk_{len(cuts)}"))
    for l in rec.cuts:
        cuts.setdefault(l, z3.Bool(f"blk_{len(cuts)}"))
    out_labels = list(dict.fromkeys(l for _, e in rec.outs for l in _labels(e)))
    tmap = dict(zip(out_labels, _eval(c, cuts, out_labels)))

    def term(e, env):
        return z3.Xor(env[e[1]], env[e[2]]) if isinstance(e, tuple) else env[e]

    top = max([w for w, _ in rec.ins] + [lev for lev, _ in rec.outs] + [0])
    W = top + len(rec.ins).bit_length() + len(rec.outs).bit_length() + 2
    lhs = gencommon.weighted_sum([(term(e, tmap), lev) for lev, e in rec.outs], W)
    rhs = gencommon.weighted_sum([(term(e, cuts), w) for w, e in rec.ins], W)
    r, _ = p.check([lhs != rhs], timeout_ms=timeout_ms, label=f"L1 {rec.name}/{len(rec.ins)}")
    return r


def run_generator(kind, mode, n, m, big_endian, deep=False, fn=None):
    from checks import c08

    c = Circuit.bare_circuit(n + (m if kind == "mul" else 0), prefix="in")
    a = list(c.inputs)[:n]
    b = list(c.inputs)[n:] if kind == "mul" else a
    with LinRecorder(deep=deep) as rec:
        if fn is not None:
            res = fn(c, a, b) if kind == "mul" else fn(c, a)
        elif kind == "mul":
            res = c08._invoke(dict(kind="mul", mode=mode, big_endian=big_endian), c, [a, b])
        else:
            res = c08._invoke(dict(kind="square", mode=mode, big_endian=big_endian), c, [a])
    res = list(res)
    if big_endian:
        a, b, res = a[::-1], b[::-1], res[::-1]
    return c, a, b, res, rec


def blocks_exact(p, c, recorder, probs, stats, block_timeout_ms):
    """L1 for every recorded block (one query per structural class) and for the pair-forming XOR gates."""
    seen = {}
    for rec in recorder.records:
        key = block_key(c, rec)
        if key not in seen:
            seen[key] = check_block(p, c, rec, block_timeout_ms)
        if seen[key] == "sat":
            probs.append(f"block {rec.name} over {len(rec.ins)} bits is not an exact sum")
            break
        if seen[key] != "unsat":
            probs.append(f"block {rec.name} over {len(rec.ins)} bits: L1 inconclusive")
    stats["block_classes"] = len(seen)
    if recorder.pair_gates:
        # every (a, a^b) pair really holds a^b (one query per gate type/operand pattern)
        kinds = {}
        for a_, b_, xy in recorder.pair_gates:
            kinds.setdefault((c.gates[xy].gate_type.name, tuple(c.gates[xy].operands) == (a_, b_), a_ == b_), (a_, b_, xy))
        for a_, b_, xy in kinds.values():
            cuts = {a_: z3.Bool("pa"), b_: z3.Bool("pb")}
            t, = _eval(c, cuts, [xy])
            r, _ = p.check([t != z3.Xor(cuts[a_], cuts[b_])], label="pair gate")
            if r != "unsat":
                probs.append(f"the gate forming the pair ({a_}, {xy}) is not {a_} xor {b_}")
        stats["pairs"] = len(recorder.pair_gates)


class LinSystem:
    """0/1 integer variable per label (and per virtual pair bit), one linear equation per recorded block."""

    def __init__(self, recorder):
        self.rec, self.cons, self.val, self.n = recorder, [], {}, 0

    def bit(self, name):
        v = z3.Int(name)
        self.cons.append(z3.And(v >= 0, v <= 1))
        return v

    def plain_outputs(self):
        out = set()
        for r in self.rec.records:
            own = {l for _, e in r.ins for l in ([e] if not isinstance(e, tuple) else [])}
            out |= {e for _, e in r.outs if not isinstance(e, tuple) and e not in own}
        return out

    def resolve(self, e):
        while isinstance(e, tuple) and e in self.rec.alias:
            e = self.rec.alias[e]
        return e

    def consumed_plain(self):
        """Real gates read by the recorded blocks: directly, or as the second bit of a pair formed from two gates."""
        ins = [self.resolve(e) for r in self.rec.records for _, e in r.ins]
        return [e for e in ins if not isinstance(e, tuple)]

    def value(self, e):
        if isinstance(e, tuple) and e in self.rec.alias:
            return self.value(self.rec.alias[e])
        if e not in self.val:
            self.n += 1
            self.val[e] = self.bit(f"V_{self.n}")
        return self.val[e]

    def add_blocks(self):
        for r in self.rec.records:
            self.cons.append(z3.Sum([self.value(e) * (1 << lev) for lev, e in r.outs]) == z3.Sum([self.value(e) * (1 << w) for w, e in r.ins]))


class RecordSlice:
    """The part of a recording that belongs to one call (records r0:r1, pair gates g0:g1)."""

    def __init__(self, recorder, r0, r1, g0, g1):
        self.records, self.pair_gates, self.alias = recorder.records[r0:r1], recorder.pair_gates[g0:g1], recorder.alias


def conservation(p, kind, mode, n, m, big_endian=False, block_timeout_ms=120000, lin_timeout_ms=600000, deep=False, fn=None, keep=None):
    """Returns (problems, stats, witness) -- witness = (a_value, b_value) when L2 produced a model."""
    c, a, b, res, recorder = run_generator(kind, mode, n, m, big_endian, deep=deep, fn=fn)
    if keep is not None:
        keep.update(c=c, a=a, b=b, res=res)
    return conservation_core(p, c, a, b, res, recorder, kind != "mul", block_timeout_ms, lin_timeout_ms)


def conservation_core(p, c, a, b, res, recorder, square, block_timeout_ms=120000, lin_timeout_ms=600000):
    """The argument itself, for a product computed inside circuit `c` from operand labels a, b (cut points)."""
    records = recorder.records
    n, m = len(a), len(b)
    N = len(res)
    probs, stats = [], {"blocks": len(records), "block_classes": 0, "products": 0, "result_bits": N, "gates": len(c.gates)}
    if not records and N and max(n, m) > 1 and min(n, m) > 1:
        probs.append("no summation primitive was recorded: the generator is not built from the recorded blocks")
    # ---- L1
    blocks_exact(p, c, recorder, probs, stats, block_timeout_ms)
    # ---- classify glue labels (consumed or returned, produced by no block)
    sys_ = LinSystem(recorder)
    produced = sys_.plain_outputs()
    used = sys_.consumed_plain() + list(res)
    glue = [l for l in dict.fromkeys(used) if l not in produced]
    A = {l: z3.Bool(f"a{i}") for i, l in enumerate(a)}
    B = A if square else {l: z3.Bool(f"b{i}") for i, l in enumerate(b)}
    prim = dict(A)
    prim.update(B)
    ia = {l: i for i, l in enumerate(a)}
    ib = {l: i for i, l in enumerate(b)}
    Pint, Aint, Bint = {}, {}, {}
    cons = sys_.cons

    def bit(d, key, name):
        if key not in d:
            d[key] = z3.Int(name)
            cons.append(z3.And(d[key] >= 0, d[key] <= 1))
        return d[key]

    def a_int(i):
        return bit(Aint, i, f"A{i}")

    def b_int(i):
        return a_int(i) if square else bit(Bint, i, f"B{i}")

    def p_int(j, i):
        """a_j & b_i"""
        if square:
            if i == j:
                return a_int(i)
            j, i = min(i, j), max(i, j)
        if (j, i) not in Pint:
            v = bit(Pint, (j, i), f"P{j}_{i}")
            cons.extend([v <= a_int(j), v <= b_int(i), v >= a_int(j) + b_int(i) - 1])
        return Pint[(j, i)]

    val = sys_.val
    terms = _eval(c, prim, glue) if glue else []
    for l, t in zip(glue, terms):
        g = c.gates[l]
        cand = None
        if l in prim:
            cand = ("a", ia[l]) if l in ia else ("b", ib[l])
        elif len(g.operands) == 2 and all(o in prim for o in g.operands):
            x, y = g.operands
            if x in ia and y in ib:
                cand = ("p", ia[x], ib[y])
            elif y in ia and x in ib:
                cand = ("p", ia[y], ib[x])
        v = None
        if cand is not None and cand[0] == "p":
            r, _ = p.check([t != z3.And(A[a[cand[1]]], B[b[cand[2]]])], label="glue")
            if r == "unsat":
                v = p_int(cand[1], cand[2])
                stats["products"] += 1
        elif cand is not None:
            v = a_int(cand[1]) if cand[0] == "a" else b_int(cand[1])
        if v is None:
            r, _ = p.check([t], label="glue zero")
            if r == "unsat":
                v = z3.IntVal(0)
            else:
                # same function as one input?  (e.g. AND(a_i, a_i) in a squarer)
                for x in g.operands:
                    if x in prim:
                        r2, _ = p.check([t != prim[x]], label="glue input")
                        if r2 == "unsat":
                            v = a_int(ia[x]) if x in ia else b_int(ib[x])
                            break
        if v is None:
            probs.append(f"gate {l} = {g.gate_type.name}{tuple(g.operands)} feeds the compression but is neither a partial product, an operand bit nor zero")
            v = bit({}, l, f"U_{len(val)}")
        val[l] = v
    # ---- L2
    sys_.add_blocks()
    if square:
        rhs = z3.Sum([a_int(i) * (1 << (2 * i)) for i in range(n)] + [p_int(j, i) * (1 << (i + j + 1)) for j in range(n) for i in range(j + 1, n)])
    else:
        rhs = z3.Sum([p_int(j, i) * (1 << (i + j)) for j in range(n) for i in range(m)])
    # carries that are left over, with their absolute weights (bookkeeping; soundness rests on the query)
    balance = {}
    for rec in records:
        for _, l in rec.outs:
            balance[l] = balance.get(l, 0) + 1
        for _, l in rec.ins:
            balance[l] = balance.get(l, 0) - 1
    for l in res:
        balance[l] = balance.get(l, 0) - 1
    for rec in records:
        for _, e in rec.ins:
            if isinstance(e, tuple) and not isinstance(sys_.resolve(e), tuple):
                balance[sys_.resolve(e)] = balance.get(sys_.resolve(e), 0) - 1
    absw = _absolute_weights(records, val, Pint, Aint, square)
    high = [(l, k) for l, k in balance.items() if k > 0 and l in produced and absw.get(l, -1) >= N]
    stats["left_over_high_carries"] = len(high)
    D = z3.Sum([val[l] * (k << (absw[l] - N)) for l, k in high]) if high else z3.IntVal(0)
    lhs = z3.Sum([sys_.value(l) * (1 << i) for i, l in enumerate(res)]) if res else z3.IntVal(0)
    s = z3.Solver()
    s.set("timeout", lin_timeout_ms)
    s.add(*cons)
    s.add(lhs + D * (1 << N) != rhs)
    import time
    t0 = time.time()
    r = str(s.check())
    p.solver_s += time.time() - t0
    p.queries["unsat" if r == "unsat" else "sat" if r == "sat" else "unknown"] += 1
    witness = None
    if r == "sat":
        mod = s.model()
        av = sum(mod.eval(a_int(i), model_completion=True).as_long() << i for i in range(n))
        bv = av if square else sum(mod.eval(b_int(i), model_completion=True).as_long() << i for i in range(m))
        witness = (av, bv)
        probs.append("the partial products and carries are not conserved: some bit is lost, duplicated or lands in the wrong column")
    elif r != "unsat":
        probs.append("L2 inconclusive")
    # ---- L3
    x, d, ab = z3.Ints("res D ab")
    r3, _ = p.check([x >= 0, d >= 0, ab >= 0, ab <= ((1 << n) - 1) * ((1 << (n if square else m)) - 1), x + d * (1 << N) == ab, z3.Or(d != 0, x != ab)] if N >= n + (n if square else m)
                    else [z3.BoolVal(True)], label="L3")
    if r3 != "unsat":
        probs.append(f"result has {N} bits: too few for every product" if r3 == "sat" else "L3 inconclusive")
    return probs, stats, witness


def _absolute_weights(records, val, Pint, Aint, square):
    """Absolute weight (column) of every label, propagated from the partial products through the blocks."""
    absw = {}
    inv = {}
    for (j, i), v in Pint.items():
        inv[v.decl().name()] = i + j + (1 if square else 0)
    for i, v in Aint.items():
        inv.setdefault(v.decl().name(), 2 * i)
    for l, v in val.items():
        if z3.is_const(v) and v.decl().kind() == z3.Z3_OP_UNINTERPRETED and v.decl().name() in inv:
            absw[l] = inv[v.decl().name()]
    pending = list(records)
    progress = True
    while pending and progress:
        progress, rest = False, []
        for rec in pending:
            base = next((absw[l] - w for w, l in rec.ins if not isinstance(l, tuple) and l in absw), None)
            if base is None:
                rest.append(rec)
                continue
            for lev, l in rec.outs:
                absw.setdefault(l, base + lev)
            progress = True
        pending = rest
    return absw


def concrete_product(kind, mode, n, m, big_endian, av, bv):
    """Evaluates the really generated circuit on one operand pair."""
    from checks import c08

    c = Circuit.bare_circuit(n + (m if kind == "mul" else 0), prefix="in")
    a = list(c.inputs)[:n]
    b = list(c.inputs)[n:] if kind == "mul" else a
    res = list(c08._invoke(dict(kind=kind, mode=mode, big_endian=big_endian), c, [a, b] if kind == "mul" else [a]))
    bits_a = [bool((av >> i) & 1) for i in range(n)]
    bits_b = [bool((bv >> i) & 1) for i in range(m)] if kind == "mul" else []
    if big_endian:
        bits_a, bits_b = bits_a[::-1], bits_b[::-1]
    assign = dict(zip(a, bits_a))
    assign.update(zip(b, bits_b) if kind == "mul" else [])
    vals = gencommon.concrete_values(c, assign, res)
    out = [bool(vals[l]) for l in res]
    if big_endian:
        out = out[::-1]
    return sum(int(v) << i for i, v in enumerate(out)), len(out)


def sum_conservation(p, case, block_timeout_ms=120000, lin_timeout_ms=600000, drop_block=None):
    """C07: a summation generator at a size far beyond the direct bit-vector query.  Every inner block of the
    real generator (MDFA, simplified MDFA, Stockmeyer block, half/full adders, the gates that form and dissolve
    (x, x^y) pairs) is recorded and proved exact (L1); one integer query decides
    sum 2^lev*out == sum 2^w*in from the block equations (L2).  Returns (problems, stats, witness assignment)."""
    from checks import c07

    widths = case["widths"]
    c = Circuit.bare_circuit(sum(widths), prefix="in")
    labs = list(c.inputs)
    operands, k = [], 0
    for w in widths:
        operands.append(labs[k:k + w])
        k += w
    with LinRecorder(deep=True) as recorder:
        outs, ins, flags = c07._invoke(case, c, operands)
    probs, stats = [], {"blocks": len(recorder.records), "block_classes": 0, "gates": len(c.gates), "inputs": len(ins), "outputs": len(outs)}
    blocks_exact(p, c, recorder, probs, stats, block_timeout_ms)
    sys_ = LinSystem(recorder)
    produced = sys_.plain_outputs()
    stray = [l for l in dict.fromkeys(sys_.consumed_plain() + [l for _, l in outs]) if l not in produced and l not in labs]
    if stray:
        probs.append(f"gates {stray[:3]} feed the compression but come from no recorded block")
    if drop_block is not None and recorder.records:
        del recorder.records[drop_block]  # canary: without one block equation the identity must not follow
    sys_.add_blocks()
    lhs = z3.Sum([sys_.value(l) * (1 << lev) for lev, l in outs]) if outs else z3.IntVal(0)
    rhs = z3.Sum([sys_.value(l) * (1 << w) for w, l in ins]) if ins else z3.IntVal(0)
    s = z3.Solver()
    s.set("timeout", lin_timeout_ms)
    s.add(*sys_.cons)
    s.add(lhs != rhs)
    import time
    t0 = time.time()
    r = str(s.check())
    p.solver_s += time.time() - t0
    p.queries["unsat" if r == "unsat" else "sat" if r == "sat" else "unknown"] += 1
    witness = None
    if r == "sat":
        mod = s.model()
        witness = {l: bool(mod.eval(sys_.value(l), model_completion=True).as_long()) for l in labs}
        probs.append("the bits and carries are not conserved: some bit is lost, duplicated or carried into the wrong level")
    elif r != "unsat":
        probs.append("L2 inconclusive")
    return probs, stats, witness


def concrete_sum(case, assign_by_index):
    """Evaluates the really generated summation circuit on one assignment (list of bools by input position)."""
    from checks import c07

    widths = case["widths"]
    c = Circuit.bare_circuit(sum(widths), prefix="in")
    labs = list(c.inputs)
    operands, k = [], 0
    for w in widths:
        operands.append(labs[k:k + w])
        k += w
    outs, ins, flags = c07._invoke(case, c, operands)
    assign = dict(zip(labs, assign_by_index))
    vals = gencommon.concrete_values(c, assign, [l for _, l in outs])
    return sum(int(bool(vals[l])) << lev for lev, l in outs), sum(int(assign[l]) << w for w, l in ins)
