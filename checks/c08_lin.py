"""C08, wide column-compression multipliers and squarers, decided *compositionally* (linear conservation).

The real generator (add_mul / add_mul_alter / add_mul_dadda / add_mul_wallace / add_mul_pow2_m1 /
add_square_pow2_m1) runs at its real width (25x25, 2x44, 32x32 ...), far beyond what one
bit-vector equivalence query can decide.  Every *outermost* call of a summation primitive
(add_sum2, add_sum3, add_sum_n_bits, add_sum_n_weighted_bits, add_sum_two_numbers[_with_shift])
made by the generator is recorded with its operand and result labels and their weights.

  L1  every recorded block is exact: from free values on its operand labels, z3 (bit-vectors over
      the *real* gates of the block) decides  sum 2^lev*out == sum 2^w*in.  Blocks with the same
      gate-level structure are decided once.
  L2  conservation: every partial-product gate is classified by z3 (equivalence with a_j & b_i);
      then, over integers in [0,1] for every label, with one linear equation per recorded block
      (justified by L1), z3 decides   sum 2^i*res_i + 2^N*(carries left over at weight >= N) == sum 2^(i+j)*p_ij.
      Any partial product used twice or never, any carry fed into the wrong column or dropped below
      weight N makes the query satisfiable, and the model is a concrete operand pair (replayed).
  L3  res < 2^N and a*b < 2^N, so the left-over high carries are zero and res == a*b   (z3 Int lemma).
L1 for every block + L2 + L3  =>  the product is exact for all operand values.
"""
import z3

from vlib import circ, symeval
from checks import gencommon
from checks.c08_comp import _eval

from cirbo.core.circuit import Circuit
from cirbo.synthesis.generation.arithmetics import multiplication as M, square as SQ, summation as S

PRIMS = {"add_sum2": "bits", "add_sum3": "bits", "add_sum_n_bits": "bits", "add_sum_n_weighted_bits": "weighted",
         "add_sum_two_numbers_with_shift": "shift", "add_sum_two_numbers": "two"}


class Rec:
    def __init__(self, name, ins, outs):
        self.name, self.ins, self.outs = name, ins, outs  # [(relative weight, label)]


class LinRecorder:
    def __init__(self):
        self.records, self.depth, self.saved = [], 0, []

    def __enter__(self):
        for mod in (M, SQ, S):
            for name, kind in PRIMS.items():
                if mod is S and name != "add_sum_n_bits":
                    continue  # inside summation only the blocks add_sum_pow2_m1 is made of are primitives
                if not hasattr(mod, name):
                    continue
                orig = getattr(mod, name)
                self.saved.append((mod, name, orig))
                setattr(mod, name, self._wrap(orig, name, kind))
        return self

    def __exit__(self, *exc):
        for mod, name, orig in self.saved:
            setattr(mod, name, orig)
        return False

    def _wrap(self, orig, name, kind):
        def wrapper(circuit, *args, **kw):
            if self.depth:
                return orig(circuit, *args, **kw)
            args = [list(a) if not isinstance(a, int) else a for a in args]
            self.depth += 1
            try:
                out = orig(circuit, *args, **kw)
            finally:
                self.depth -= 1
            be = bool(kw.get("big_endian"))
            rev = (lambda x: list(x)[::-1]) if be else list
            if kind == "bits":
                ins, outs = [(0, l) for l in args[0]], list(enumerate(rev(out)))
            elif kind == "weighted":
                ins, outs = [(w, l) for w, l in args[0]], [(w, l) for w, l in out]
            else:
                shift, a, b = (args[0], args[1], args[2]) if kind == "shift" else (0, args[0], args[1])
                ins = list(enumerate(rev(a))) + [(shift + i, l) for i, l in enumerate(rev(b))]
                outs = list(enumerate(rev(out)))
            self.records.append(Rec(name, ins, outs))
            return out

        return wrapper


def block_key(c, rec):
    """Gate-level structure of a recorded block, independent of labels."""
    pos = {}
    for w, l in rec.ins:
        pos.setdefault(l, len(pos))
    ids, items = {}, []

    def visit(l):
        if l in pos:
            return ("in", pos[l])
        if l in ids:
            return ("g", ids[l])
        g = c.gates[l]
        ops = tuple(visit(o) for o in g.operands)
        ids[l] = len(ids)
        items.append((g.gate_type.name, ops))
        return ("g", ids[l])

    outs = tuple((lev, visit(l)) for lev, l in rec.outs)
    return (tuple((w, pos[l]) for w, l in rec.ins), tuple(items), outs)


def check_block(p, c, rec, timeout_ms):
    cuts = {}
    for w, l in rec.ins:
        cuts.setdefault(l, z3.Bool(f"blk_{len(cuts)}"))
    terms = _eval(c, cuts, [l for _, l in rec.outs])
    top = max([w for w, _ in rec.ins] + [lev for lev, _ in rec.outs] + [0])
    W = top + len(rec.ins).bit_length() + len(rec.outs).bit_length() + 2
    lhs = gencommon.weighted_sum([(t, lev) for t, (lev, _) in zip(terms, rec.outs)], W)
    rhs = gencommon.weighted_sum([(cuts[l], w) for w, l in rec.ins], W)
    r, _ = p.check([lhs != rhs], timeout_ms=timeout_ms, label=f"L1 {rec.name}/{len(rec.ins)}")
    return r


def run_generator(kind, mode, n, m, big_endian):
    from checks import c08

    c = Circuit.bare_circuit(n + (m if kind == "mul" else 0), prefix="in")
    a = list(c.inputs)[:n]
    b = list(c.inputs)[n:] if kind == "mul" else a
    with LinRecorder() as rec:
        if kind == "mul":
            res = c08._invoke(dict(kind="mul", mode=mode, big_endian=big_endian), c, [a, b])
        else:
            res = c08._invoke(dict(kind="square", mode=mode, big_endian=big_endian), c, [a])
    res = list(res)
    if big_endian:
        a, b, res = a[::-1], b[::-1], res[::-1]
    return c, a, b, res, rec.records


def conservation(p, kind, mode, n, m, big_endian=False, block_timeout_ms=120000, lin_timeout_ms=600000):
    """Returns (problems, stats, witness) -- witness = (a_value, b_value) when L2 produced a model."""
    c, a, b, res, records = run_generator(kind, mode, n, m, big_endian)
    square = kind != "mul"
    N = len(res)
    probs, stats = [], {"blocks": len(records), "block_classes": 0, "products": 0, "result_bits": N, "gates": len(c.gates)}
    if not records and N and max(n, m) > 1 and min(n, m) > 1:
        probs.append("no summation primitive was recorded: the generator is not built from the recorded blocks")
    # ---- L1
    seen = {}
    for rec in records:
        key = block_key(c, rec)
        if key not in seen:
            seen[key] = check_block(p, c, rec, block_timeout_ms)
        if seen[key] == "sat":
            probs.append(f"block {rec.name} over {len(rec.ins)} bits is not an exact sum")
            break
        if seen[key] != "unsat":
            probs.append(f"block {rec.name} over {len(rec.ins)} bits: L1 inconclusive")
    stats["block_classes"] = len(seen)
    # ---- classify glue labels (consumed or returned, produced by no block)
    produced = {l for r in records for _, l in r.outs if l not in {x for _, x in r.ins}}
    used = [l for r in records for _, l in r.ins] + list(res)
    glue = [l for l in dict.fromkeys(used) if l not in produced]
    A = {l: z3.Bool(f"a{i}") for i, l in enumerate(a)}
    B = A if square else {l: z3.Bool(f"b{i}") for i, l in enumerate(b)}
    prim = dict(A)
    prim.update(B)
    ia = {l: i for i, l in enumerate(a)}
    ib = {l: i for i, l in enumerate(b)}
    Pint, Aint, Bint = {}, {}, {}
    cons = []

    def bit(d, key, name):
        if key not in d:
            d[key] = z3.Int(name)
            cons.append(z3.And(d[key] >= 0, d[key] <= 1))
        return d[key]

    def a_int(i):
        return bit(Aint, i, f"A{i}")

    def b_int(i):
        return a_int(i) if square else bit(Bint, i, f"B{i}")

    def p_int(j, i):
        """a_j & b_i"""
        if square:
            if i == j:
                return a_int(i)
            j, i = min(i, j), max(i, j)
        if (j, i) not in Pint:
            v = bit(Pint, (j, i), f"P{j}_{i}")
            cons.extend([v <= a_int(j), v <= b_int(i), v >= a_int(j) + b_int(i) - 1])
        return Pint[(j, i)]

    val = {}
    terms = _eval(c, prim, glue) if glue else []
    for l, t in zip(glue, terms):
        g = c.gates[l]
        cand = None
        if l in prim:
            cand = ("a", ia[l]) if l in ia else ("b", ib[l])
        elif len(g.operands) == 2 and all(o in prim for o in g.operands):
            x, y = g.operands
            if x in ia and y in ib:
                cand = ("p", ia[x], ib[y])
            elif y in ia and x in ib:
                cand = ("p", ia[y], ib[x])
        v = None
        if cand is not None and cand[0] == "p":
            r, _ = p.check([t != z3.And(A[a[cand[1]]], B[b[cand[2]]])], label="glue")
            if r == "unsat":
                v = p_int(cand[1], cand[2])
                stats["products"] += 1
        elif cand is not None:
            v = a_int(cand[1]) if cand[0] == "a" else b_int(cand[1])
        if v is None:
            r, _ = p.check([t], label="glue zero")
            if r == "unsat":
                v = z3.IntVal(0)
            else:
                # same function as one input?  (e.g. AND(a_i, a_i) in a squarer)
                for x in g.operands:
                    if x in prim:
                        r2, _ = p.check([t != prim[x]], label="glue input")
                        if r2 == "unsat":
                            v = a_int(ia[x]) if x in ia else b_int(ib[x])
                            break
        if v is None:
            probs.append(f"gate {l} = {g.gate_type.name}{tuple(g.operands)} feeds the compression but is neither a partial product, an operand bit nor zero")
            v = bit({}, l, f"U_{len(val)}")
        val[l] = v
    for l in produced:
        val[l] = bit({}, l, f"O_{len(val)}")
    # ---- L2
    for rec in records:
        cons.append(z3.Sum([val[l] * (1 << lev) for lev, l in rec.outs]) == z3.Sum([val[l] * (1 << w) for w, l in rec.ins]))
    if square:
        rhs = z3.Sum([a_int(i) * (1 << (2 * i)) for i in range(n)] + [p_int(j, i) * (1 << (i + j + 1)) for j in range(n) for i in range(j + 1, n)])
    else:
        rhs = z3.Sum([p_int(j, i) * (1 << (i + j)) for j in range(n) for i in range(m)])
    # carries that are left over, with their absolute weights (bookkeeping; soundness rests on the query)
    balance = {}
    for rec in records:
        for _, l in rec.outs:
            balance[l] = balance.get(l, 0) + 1
        for _, l in rec.ins:
            balance[l] = balance.get(l, 0) - 1
    for l in res:
        balance[l] = balance.get(l, 0) - 1
    absw = _absolute_weights(records, val, Pint, Aint, square)
    high = [(l, k) for l, k in balance.items() if k > 0 and l in produced and absw.get(l, -1) >= N]
    stats["left_over_high_carries"] = len(high)
    D = z3.Sum([val[l] * (k << (absw[l] - N)) for l, k in high]) if high else z3.IntVal(0)
    lhs = z3.Sum([val[l] * (1 << i) for i, l in enumerate(res)]) if res else z3.IntVal(0)
    s = z3.Solver()
    s.set("timeout", lin_timeout_ms)
    s.add(*cons)
    s.add(lhs + D * (1 << N) != rhs)
    import time
    t0 = time.time()
    r = str(s.check())
    p.solver_s += time.time() - t0
    p.queries["unsat" if r == "unsat" else "sat" if r == "sat" else "unknown"] += 1
    witness = None
    if r == "sat":
        mod = s.model()
        av = sum(mod.eval(a_int(i), model_completion=True).as_long() << i for i in range(n))
        bv = av if square else sum(mod.eval(b_int(i), model_completion=True).as_long() << i for i in range(m))
        witness = (av, bv)
        probs.append("the partial products and carries are not conserved: some bit is lost, duplicated or lands in the wrong column")
    elif r != "unsat":
        probs.append("L2 inconclusive")
    # ---- L3
    x, d, ab = z3.Ints("res D ab")
    r3, _ = p.check([x >= 0, d >= 0, ab >= 0, ab <= ((1 << n) - 1) * ((1 << (n if square else m)) - 1), x + d * (1 << N) == ab, z3.Or(d != 0, x != ab)] if N >= n + (n if square else m)
                    else [z3.BoolVal(True)], label="L3")
    if r3 != "unsat":
        probs.append(f"result has {N} bits: too few for every product" if r3 == "sat" else "L3 inconclusive")
    return probs, stats, witness


def _absolute_weights(records, val, Pint, Aint, square):
    """Absolute weight (column) of every label, propagated from the partial products through the blocks."""
    absw = {}
    inv = {}
    for (j, i), v in Pint.items():
        inv[v.decl().name()] = i + j + (1 if square else 0)
    for i, v in Aint.items():
        inv.setdefault(v.decl().name(), 2 * i)
    for l, v in val.items():
        if z3.is_const(v) and v.decl().kind() == z3.Z3_OP_UNINTERPRETED and v.decl().name() in inv:
            absw[l] = inv[v.decl().name()]
    pending = list(records)
    progress = True
    while pending and progress:
        progress, rest = False, []
        for rec in pending:
            base = next((absw[l] - w for w, l in rec.ins if l in absw), None)
            if base is None:
                rest.append(rec)
                continue
            for lev, l in rec.outs:
                absw.setdefault(l, base + lev)
            progress = True
        pending = rest
    return absw


def concrete_product(kind, mode, n, m, big_endian, av, bv):
    """Evaluates the really generated circuit on one operand pair."""
    from checks import c08

    c = Circuit.bare_circuit(n + (m if kind == "mul" else 0), prefix="in")
    a = list(c.inputs)[:n]
    b = list(c.inputs)[n:] if kind == "mul" else a
    res = list(c08._invoke(dict(kind=kind, mode=mode, big_endian=big_endian), c, [a, b] if kind == "mul" else [a]))
    bits_a = [bool((av >> i) & 1) for i in range(n)]
    bits_b = [bool((bv >> i) & 1) for i in range(m)] if kind == "mul" else []
    if big_endian:
        bits_a, bits_b = bits_a[::-1], bits_b[::-1]
    assign = dict(zip(a, bits_a))
    assign.update(zip(b, bits_b) if kind == "mul" else [])
    vals = gencommon.concrete_values(c, assign, res)
    out = [bool(vals[l]) for l in res]
    if big_endian:
        out = out[::-1]
    return sum(int(v) << i for i, v in enumerate(out)), len(out)
