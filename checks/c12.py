"""C12 — all function representations answer every protocol query alike and correctly.

The truth table itself is symbolic (2^n*m z3 Booleans).  TruthTable, PyFunction and a
Circuit realising the table (mux tree over *symbolic constant leaves*) are built directly
in that symbolic state and every protocol query is run on each under the forking
executor; per path z3 decides that the answer equals the mathematical definition written
over the table.  Path coverage is proven by z3, so the claim is "for every table of this
shape".
"""
import copy
import itertools
import os
import random

import z3

from vlib import circ, circgen, forkexec, refsem, symeval, xh
from checks.common import REPLAY_PRELUDE

LEVEL = "other"
TECHNIQUE = "bounded symbolic execution: forking executor over a fully symbolic truth table (z3 path feasibility and coverage), answers compared with z3 definitions per path"
USES_STUBS = True

from cirbo.core.circuit import Circuit, gate as G  # noqa: E402
from cirbo.core.logic import DontCare  # noqa: E402
from cirbo.core.python_function import PyFunction, PyFunctionModel  # noqa: E402
from cirbo.core.truth_table import TruthTable, TruthTableModel  # noqa: E402

VERIF = os.path.dirname(os.path.dirname(os.path.abspath(__file__)))


class SB:
    """Symbolic Boolean table entry; branching forks through forkexec."""

    def __init__(self, term):
        self.term = term

    @staticmethod
    def of(x):
        if isinstance(x, SB):
            return x.term
        if isinstance(x, symeval.SymState):
            return symeval.zb(x.t)
        return z3.BoolVal(bool(x))

    def __bool__(self):
        return forkexec.decide(self.term)

    def __eq__(self, o):
        if o is DontCare or isinstance(o, str):
            return False
        return SB(self.term == SB.of(o))

    def __ne__(self, o):
        if o is DontCare or isinstance(o, str):
            return True
        return SB(self.term != SB.of(o))

    def __lt__(self, o):
        return SB(z3.And(z3.Not(self.term), SB.of(o)))

    def __gt__(self, o):
        return SB(z3.And(self.term, z3.Not(SB.of(o))))

    def __le__(self, o):
        return SB(z3.Or(z3.Not(self.term), SB.of(o)))

    def __ge__(self, o):
        return SB(z3.Or(self.term, z3.Not(SB.of(o))))

    def __hash__(self):
        return hash(bool(self))

    def __int__(self):
        return int(bool(self))

    __index__ = __int__


def idx_of(bits):
    return int("".join("1" if b else "0" for b in bits) or "0", 2)


def bits_of(j, n):
    return [bool((j >> (n - 1 - i)) & 1) for i in range(n)]


# ---------------------------------------------------------------- representations
def make_tt(T):
    m, rows = len(T), len(T[0])
    tt = TruthTable([[False] * rows for _ in range(m)])
    tt._table = [[SB(T[k][j]) for j in range(rows)] for k in range(m)]
    tt._table_t = [list(col) for col in zip(*tt._table)]
    return tt


def make_py(T, n):
    m = len(T)
    return PyFunction(lambda xs: [SB(T[k][idx_of(xs)]) for k in range(m)], input_size=n, output_size=m)


def make_circuit(T, n):
    """Mux tree per output whose 2^n leaves are constant gates chosen by the table bits."""
    m = len(T)
    c = Circuit()
    ins = [f"x{i}" for i in range(n)]
    c.add_inputs(ins)
    for i in range(n):
        c.emplace_gate(f"nx{i}", G.NOT, (ins[i],))
    outs = []
    for k in range(m):
        level = []
        for j in range(1 << n):
            t = symeval.make_sym_gate_type(f"LEAF_{k}_{j}", [G.ALWAYS_FALSE, G.ALWAYS_TRUE], z3.If(T[k][j], 1, 0))
            lab = f"leaf_{k}_{j}"
            c._emplace_gate(lab, t, ())
            level.append(lab)
        for i in reversed(range(n)):  # last input selects between neighbours
            nxt = []
            for p in range(0, len(level), 2):
                lo, hi = level[p], level[p + 1]
                a, b, o = f"a_{k}_{i}_{p}", f"b_{k}_{i}_{p}", f"m_{k}_{i}_{p}"
                c.emplace_gate(a, G.AND, (ins[i], hi))
                c.emplace_gate(b, G.AND, (f"nx{i}", lo))
                c.emplace_gate(o, G.OR, (a, b))
                nxt.append(o)
            level = nxt
        outs.append(level[0])
    c.set_outputs(outs)
    return c


REPRS = {"TruthTable": lambda T, n: make_tt(T), "PyFunction": make_py, "Circuit": make_circuit}

REPR_SRC = """
def build(kind, table):
    from cirbo.core.truth_table import TruthTable
    from cirbo.core.python_function import PyFunction
    from cirbo.core.circuit import Circuit
    from checks import c12
    import math
    n = int(math.log2(len(table[0])))
    if kind == 'TruthTable':
        return TruthTable([list(r) for r in table])
    if kind == 'PyFunction':
        return PyFunction(lambda xs: [table[k][c12.idx_of(xs)] for k in range(len(table))], input_size=n, output_size=len(table))
    import z3
    return c12.make_circuit([[z3.BoolVal(bool(v)) for v in r] for r in table], n)
"""


# ---------------------------------------------------------------- definitions (z3 over T)
def popcount(j):
    return bin(j).count("1")


def d_const(T, k):
    return z3.And(*[T[k][j] == T[k][0] for j in range(len(T[k]))])


def d_mono(T, k, inverse):
    r = T[k]
    return z3.And(*[(z3.Implies(r[j + 1], r[j]) if inverse else z3.Implies(r[j], r[j + 1])) for j in range(len(r) - 1)])


def d_sym(T, ks, n, neg=None):
    neg = neg or [False] * n
    mask = idx_of(neg)
    cons = []
    for k in ks:
        for j1, j2 in itertools.combinations(range(1 << n), 2):
            if popcount(j1) == popcount(j2):
                cons.append(T[k][j1 ^ mask] == T[k][j2 ^ mask])
    return z3.And(*cons) if cons else z3.BoolVal(True)


def d_dep(T, k, i, n):
    bit = 1 << (n - 1 - i)
    return z3.Or(*[T[k][j] != T[k][j | bit] for j in range(1 << n) if not j & bit])


def d_eq_input(T, k, i, n, negate):
    return z3.And(*[T[k][j] == (bits_of(j, n)[i] != negate) for j in range(1 << n)])


def queries(n, m):
    """(name, call(f), expected z3 term or callable(result)->z3 term)."""
    qs = []
    for x in itertools.product((False, True), repeat=n):
        qs.append((f"evaluate{list(x)}", lambda f, x=x: list(f.evaluate(list(x))), ("vector", [(k, idx_of(x)) for k in range(m)])))
        for k in range(m):
            qs.append((f"evaluate_at({list(x)},{k})", lambda f, x=x, k=k: f.evaluate_at(list(x), k), ("entry", k, idx_of(x))))
    qs.append(("get_truth_table()", lambda f: [list(r) for r in f.get_truth_table()], ("table",)))
    qs.append(("is_constant()", lambda f: f.is_constant(), ("bool", lambda T: z3.And(*[d_const(T, k) for k in range(m)]))))
    qs.append(("is_symmetric()", lambda f: f.is_symmetric(), ("bool", lambda T: d_sym(T, range(m), n))))
    for inv in (False, True):
        qs.append((f"is_monotone(inverse={inv})", lambda f, inv=inv: f.is_monotone(inverse=inv), ("bool", lambda T, inv=inv: z3.And(*[d_mono(T, k, inv) for k in range(m)]))))
    for k in range(m):
        qs.append((f"is_constant_at({k})", lambda f, k=k: f.is_constant_at(k), ("bool", lambda T, k=k: d_const(T, k))))
        qs.append((f"is_symmetric_at({k})", lambda f, k=k: f.is_symmetric_at(k), ("bool", lambda T, k=k: d_sym(T, [k], n))))
        for inv in (False, True):
            qs.append((f"is_monotone_at({k},inverse={inv})", lambda f, k=k, inv=inv: f.is_monotone_at(k, inverse=inv), ("bool", lambda T, k=k, inv=inv: d_mono(T, k, inv))))
        qs.append((f"get_significant_inputs_of({k})", lambda f, k=k: list(f.get_significant_inputs_of(k)), ("indexset", lambda T, i, k=k: d_dep(T, k, i, n))))
        for i in range(n):
            qs.append((f"is_dependent_on_input_at({k},{i})", lambda f, k=k, i=i: f.is_dependent_on_input_at(k, i), ("bool", lambda T, k=k, i=i: d_dep(T, k, i, n))))
            qs.append((f"is_output_equal_to_input({k},{i})", lambda f, k=k, i=i: f.is_output_equal_to_input(k, i), ("bool", lambda T, k=k, i=i: d_eq_input(T, k, i, n, False))))
            qs.append((f"is_output_equal_to_input_negation({k},{i})", lambda f, k=k, i=i: f.is_output_equal_to_input_negation(k, i), ("bool", lambda T, k=k, i=i: d_eq_input(T, k, i, n, True))))
    subsets = [[0]] + ([[1], [0, 1]] if m > 1 else []) + ([[1, 0]] if m > 1 else [])
    for ks in subsets:
        qs.append((f"find_negations_to_make_symmetric({ks})", lambda f, ks=ks: f.find_negations_to_make_symmetric(list(ks)), ("negations", ks)))
    return qs


def wrong_term(T, n, spec, result):
    """z3 term: `result` (concrete or symbolic pieces) differs from the definition."""
    kind = spec[0]
    if kind == "entry":
        return SB.of(result) != T[spec[1]][spec[2]]
    if kind == "vector":
        if len(result) != len(spec[1]):
            return z3.BoolVal(True)
        return z3.Or(*[SB.of(r) != T[k][j] for r, (k, j) in zip(result, spec[1])])
    if kind == "table":
        if len(result) != len(T) or any(len(r) != len(T[0]) for r in result):
            return z3.BoolVal(True)
        return z3.Or(*[SB.of(result[k][j]) != T[k][j] for k in range(len(T)) for j in range(len(T[0]))])
    if kind == "bool":
        return SB.of(result) != spec[1](T)
    if kind == "indexset":
        if any(not isinstance(i, int) for i in result):
            return z3.BoolVal(True)
        return z3.Or(*[z3.BoolVal(i in result) != spec[1](T, i) for i in range(n)])
    if kind == "negations":
        ks = spec[1]
        exists = z3.Or(*[d_sym(T, ks, n, list(neg)) for neg in itertools.product((False, True), repeat=n)])
        if result is None:
            return exists
        if len(result) != n:
            return z3.BoolVal(True)
        return z3.Not(d_sym(T, ks, n, [bool(v) for v in result]))
    raise ValueError(kind)


def shape_unit(p, item, tier, seed):
    n, m, rname, qsel = item[:4]
    T = [[z3.Bool(f"t_{k}_{j}") for j in range(1 << n)] for k in range(m)]
    qs = queries(n, m)
    if len(item) > 4:  # only the queries whose name starts with one of these (four inputs: the cheap, early-exit queries)
        qs = [q for q in qs if q[0].startswith(tuple(item[4]))]
    if qsel is not None:
        qs = [q for i, q in enumerate(qs) if i % qsel[1] == qsel[0]]
    for qname, call, spec in qs:
        def body():
            f = REPRS[rname](T, n)
            return call(f)

        paths, stats = forkexec.explore(body, max_paths=200000, catch=(Exception,))
        p.case(("c12", n, m, rname, qname), sample=f"{rname}.{qname} over a symbolic {m}x{1 << n} table: {stats['paths']} paths" if len(p.samples) < 5 else None)
        p.count("paths", stats["paths"])
        if stats["covered"]:
            p.queries["unsat"] += 1
        else:
            p.error(f"coverage not proven for {rname}.{qname} {n}x{m}")
        s = z3.Solver()
        if qname == "is_constant()" and rname == "TruthTable" and (n, m) == (2, 1):
            # canary (vacuity guard): judged against the wrong definition (monotone) some path must be refuted
            fired = False
            for path in paths:
                if path.exc is None:
                    s.push()
                    s.add(path.cond(), SB.of(path.result) != d_mono(T, 0, False))
                    fired |= str(s.check()) == "sat"
                    s.pop()
            p.canary(fired)
        for path in paths:
            s.push()
            s.add(path.cond())
            if path.exc is not None:
                what = f"raised {type(path.exc).__name__}: {path.exc}"
            else:
                s.add(wrong_term(T, n, spec, path.result))
                what = f"answered {path.result if not isinstance(path.result, list) or len(str(path.result)) < 80 else '...'}"
            r = str(s.check())
            p.queries["unsat" if r == "unsat" else "sat" if r == "sat" else "unknown"] += 1
            if r == "sat":
                mod = s.model()
                table = [[symeval.model_bool(mod, T[k][j]) for j in range(1 << n)] for k in range(m)]
                meth = qname.split("(")[0].split("[")[0]
                call_src = qname if not qname.startswith("evaluate[") else f"evaluate({qname[8:]})"
                p.violation(f"function:{rname}:{meth}", f"{rname}.{qname} on table {table} {what}, which is not the definition",
                            REPLAY_PRELUDE + REPR_SRC + "from checks import c12\nimport z3\n" + f"table={table!r}\nkind={rname!r}\n"
                            f"n={n}; m={m}\nf=build(kind, table)\n"
                            "T=[[z3.BoolVal(v) for v in r] for r in table]\n"
                            f"qname={qname!r}\n"
                            "q=[q for q in c12.queries(n,m) if q[0]==qname][0]\n"
                            "try:\n    res=q[1](f)\n    res=[bool(v) if not isinstance(v,(list,int)) or isinstance(v,bool) else v for v in res] if isinstance(res,list) and q[2][0]!='indexset' and q[2][0]!='table' else res\n"
                            "    wrong=z3.is_true(z3.simplify(c12.wrong_term(T, n, q[2], res)))\nexcept Exception as e:\n    print(type(e).__name__, e); wrong=True\n"
                            "print(qname, 'wrong' if wrong else 'right'); sys.exit(1 if wrong else 0)\n")
                s.pop()
                return
            s.pop()



# ---------------------------------------------------------------- circuits of arbitrary structure
def ref_table(c):
    """Truth table of a concrete circuit by the reference semantics (replays)."""
    net = circ.netlist_of(c)
    n = len(c.inputs)
    rows = []
    for j in range(1 << n):
        vals = refsem.denote(net, {l: z3.BoolVal(b) for l, b in zip(c.inputs, bits_of(j, n))})
        rows.append([z3.is_true(z3.simplify(vals[o])) for o in c.outputs])
    return [list(col) for col in zip(*rows)] if rows and c.outputs else []


def struct_unit(p, item, tier, seed):
    """Circuits as users build them (outputs that are inputs, inputs nobody reads, a gate that is two outputs,
    constants): the topology is fixed, every gate *type* is symbolic; the Circuit answers are compared with the
    definitions over the reference-semantics table of the same symbolic circuit."""
    n, topo, out_idx, qsel = item
    inputs = [f"x{i}" for i in range(n)]
    nodes = list(inputs)
    gates, sels, cands_all, cons = [], [], [], []
    for j, ops in enumerate(topo):
        cands = circgen.types_for_arity(len(ops)) + ([t for t in circgen.CONST] if len(ops) in (1, 2) else [])
        sel = z3.Int(f"sel{j}")
        cons.append(z3.And(sel >= 0, sel < len(cands)))
        gates.append((f"g{j}", symeval.make_sym_gate_type(f"SYM{j}", cands, sel), tuple(nodes[o] for o in ops)))
        sels.append(sel)
        cands_all.append(cands)
        nodes.append(f"g{j}")
    outs = [nodes[i] for i in out_idx]
    m = len(outs)

    def ref_row(bits):
        ER = {l: z3.BoolVal(b) for l, b in zip(inputs, bits)}
        for (lab, _, ops), sel, cands in zip(gates, sels, cands_all):
            term = z3.BoolVal(False)
            for i, t in reversed(list(enumerate(cands))):
                term = z3.If(sel == i, refsem.ref_op(t.name, [ER[o] for o in ops]), term)
            ER[lab] = z3.simplify(term)
        return ER

    rows = [ref_row(bits_of(j, n)) for j in range(1 << n)]
    T = [[rows[j][o] for j in range(1 << n)] for o in outs]
    qs = queries(n, m)
    if qsel is not None:
        qs = [q for i, q in enumerate(qs) if i % qsel[1] == qsel[0]]
    base = z3.And(*cons) if cons else z3.BoolVal(True)
    for qname, call, spec in qs:
        def body():
            return call(circgen.build(inputs, gates, outs))

        paths, stats = forkexec.explore(body, base=[base], max_paths=50000, catch=(Exception,))
        p.case(("c12s", n, tuple(topo), tuple(out_idx), qname),
               sample=f"Circuit.{qname} on topology inputs={n} operands={topo} outputs={outs} with symbolic gate types: {stats['paths']} paths" if len(p.samples) < 12 and qname.startswith("get_sig") else None)
        p.count("paths", stats["paths"])
        if stats["covered"]:
            p.queries["unsat"] += 1
        else:
            p.error(f"coverage not proven for Circuit.{qname} on {topo}")
        for path in paths:
            if path.exc is not None:
                wrong, what = z3.BoolVal(True), f"raised {type(path.exc).__name__}: {path.exc}"
            else:
                wrong, what = wrong_term(T, n, spec, path.result), f"answered {path.result if len(str(path.result)) < 80 else '...'}"
            r, mod = p.check([base, path.cond(), wrong], label=f"struct {qname}")
            if r == "sat":
                chosen = [cands[mod.eval(sel, model_completion=True).as_long()] for sel, cands in zip(sels, cands_all)]
                cc = circgen.build(inputs, [(g[0], t, g[2]) for g, t in zip(gates, chosen)], outs)
                meth = qname.split("(")[0].split("[")[0]
                p.violation(f"function:Circuit:{meth}:structure", f"Circuit.{qname} on {circ.describe(cc)} {what}, which is not the definition",
                            REPLAY_PRELUDE + circ.circ_src(cc) + "\nfrom checks import c12\nimport z3\n"
                            f"n={n}; m={m}; qname={qname!r}\n"
                            "T=[[z3.BoolVal(v) for v in r] for r in c12.ref_table(c)]\n"
                            "q=[q for q in c12.queries(n,m) if q[0]==qname][0]\n"
                            "try:\n    res=q[1](c)\n    wrong=z3.is_true(z3.simplify(c12.wrong_term(T, n, q[2], res)))\nexcept Exception as e:\n    print(type(e).__name__, e); wrong=True\n"
                            "print(qname, 'wrong' if wrong else 'right'); sys.exit(1 if wrong else 0)\n")
                return


def struct_items(thorough, rnd):
    items = []
    for n, ng in ((1, 1), (2, 1), (2, 2), (3, 1), (3, 2)):
        topos = list(circgen.systematic_topologies(n, ng, (1, 2)))
        if len(topos) > (40 if thorough else 10):
            topos = rnd.sample(topos, 40 if thorough else 10)
        for topo in topos:
            last = n + ng - 1
            used = {o for ops in topo for o in ops}
            idle = [i for i in range(n) if i not in used]
            choices = [[last], [last, 0], [idle[0]] if idle else [n - 1], [last, last]]
            if idle:
                choices.append([last, idle[-1]])
            for oc in choices if thorough else rnd.sample(choices, 2) + ([choices[-1]] if idle else []):
                k = 1 if n < 3 else 3
                items += [(n, topo, tuple(oc), (i, k)) for i in range(k)]
    return list(dict.fromkeys((a, tuple(map(tuple, b)), c, d) for a, b, c, d in items))


# ---------------------------------------------------------------- callables as users write them
def _callables():
    """PyFunction over callables that hand back what they were given, or tuples: (name, n, m, callable, table)."""
    out = []
    for n in (1, 2, 3):
        rows = [bits_of(j, n) for j in range(1 << n)]
        out.append((f"identity-returns-its-argument/{n}", n, n, (lambda x: x), [[r[k] for r in rows] for k in range(n)]))
        out.append((f"identity-tuple/{n}", n, n, (lambda x: tuple(x)), [[r[k] for r in rows] for k in range(n)]))
    fa = lambda x: (x[0] ^ x[1] ^ x[2], (x[0] and x[1]) or (x[2] and (x[0] ^ x[1])))  # noqa: E731
    rows = [bits_of(j, 3) for j in range(8)]
    out.append(("full-adder-tuple/3", 3, 2, fa, [[bool(fa(r)[k]) for r in rows] for k in range(2)]))
    maj = lambda x: [sum(x) >= 2]  # noqa: E731
    out.append(("majority-list/3", 3, 1, maj, [[bool(maj(r)[0]) for r in rows]]))
    sw = lambda x: (x[1], x[0])  # noqa: E731
    rows2 = [bits_of(j, 2) for j in range(4)]
    out.append(("swap-tuple/2", 2, 2, sw, [[bool(sw(r)[k]) for r in rows2] for k in range(2)]))
    return out


def callable_unit(p, item, tier, seed):
    name = item
    _, n, m, fn, table = [c for c in _callables() if c[0] == name][0]
    T = [[z3.BoolVal(bool(v)) for v in r] for r in table]
    for qname, call, spec in queries(n, m):
        p.case(("c12c", name, qname), sample=f"PyFunction({name}).{qname}" if len(p.samples) < 3 else None)
        try:
            res = call(PyFunction(fn, input_size=n, output_size=m))
            if isinstance(res, (list, tuple)) and spec[0] in ("vector", "table"):
                res = [list(r) if isinstance(r, (list, tuple)) else r for r in res] if spec[0] == "table" else list(res)
            wrong = z3.is_true(z3.simplify(wrong_term(T, n, spec, res)))
            what = f"answered {res}"
        except Exception as e:  # noqa: BLE001
            wrong, what = True, f"raised {type(e).__name__}: {e}"
        p.queries["sat" if wrong else "unsat"] += 1
        if wrong:
            p.violation(f"function:PyFunction:{qname.split('(')[0].split('[')[0]}:callable", f"PyFunction over {name} (table {table}): {qname} {what}, which is not the definition",
                        REPLAY_PRELUDE + "from checks import c12\nimport z3\nfrom cirbo.core.python_function import PyFunction\n" + f"name={name!r}; qname={qname!r}\n"
                        "_, n, m, fn, table = [c for c in c12._callables() if c[0]==name][0]\n"
                        "T=[[z3.BoolVal(bool(v)) for v in r] for r in table]\n"
                        "q=[q for q in c12.queries(n,m) if q[0]==qname][0]\n"
                        "try:\n    res=q[1](PyFunction(fn, input_size=n, output_size=m))\n"
                        "    if isinstance(res,(list,tuple)) and q[2][0]=='vector': res=list(res)\n"
                        "    if isinstance(res,(list,tuple)) and q[2][0]=='table': res=[list(r) for r in res]\n"
                        "    wrong=z3.is_true(z3.simplify(c12.wrong_term(T, n, q[2], res)))\nexcept Exception as e:\n    print(type(e).__name__, e); wrong=True\n"
                        "print(qname, 'wrong' if wrong else 'right'); sys.exit(1 if wrong else 0)\n")
            return



# ---------------------------------------------------------------- many inputs, few of them significant
def _wide_function(spec):
    """(n, picks, kind) -> callable on a list of n bools (depends only on the picked inputs)."""
    n, picks, kind = spec
    if kind == "xor":
        return lambda x: [sum(bool(x[i]) for i in picks) % 2 == 1]
    if kind == "and":
        return lambda x: [all(x[i] for i in picks)]
    return lambda x: [sum(bool(x[i]) for i in picks) * 2 > len(picks), bool(x[picks[0]]) != bool(x[picks[-1]])]


def wide_unit(p, item, tier, seed):
    """The three representations of one function on 9..11 inputs must give the *same answers* (lists included)."""
    spec = item
    n, picks, kind = spec
    fn = _wide_function(spec)
    rows = [fn(bits_of(j, n)) for j in range(1 << n)]
    m = len(rows[0])
    tt = TruthTable([[bool(r[k]) for r in rows] for k in range(m)])
    py = PyFunction(fn, input_size=n, output_size=m)
    c = Circuit()
    ins = [f"x{i}" for i in range(n)]
    c.add_inputs(ins)
    ops = tuple(ins[i] for i in picks)
    if kind == "xor":
        c.emplace_gate("o0", G.XOR, ops)
        outs = ["o0"]
    elif kind == "and":
        c.emplace_gate("o0", G.AND, ops)
        outs = ["o0"]
    else:
        import itertools as it

        k = len(picks) // 2 + 1
        terms = []
        for j, comb in enumerate(it.combinations(ops, k)):
            c.emplace_gate(f"t{j}", G.AND, comb)
            terms.append(f"t{j}")
        c.emplace_gate("o0", G.OR, tuple(terms)) if len(terms) > 1 else c.emplace_gate("o0", G.IFF, (terms[0],))
        c.emplace_gate("o1", G.XOR, (ops[0], ops[-1]))
        outs = ["o0", "o1"]
    c.set_outputs(outs)
    reprs = {"TruthTable": tt, "PyFunction": py, "Circuit": c}
    qs = [("get_significant_inputs_of", lambda f, k: list(f.get_significant_inputs_of(k)))] + \
         [(f"is_dependent_on_input_at(.,{i})", lambda f, k, i=i: f.is_dependent_on_input_at(k, i)) for i in sorted(set(picks) | {0, n - 1})] + \
         [("is_symmetric_at", lambda f, k: f.is_symmetric_at(k)), ("is_constant_at", lambda f, k: f.is_constant_at(k)), ("is_monotone_at", lambda f, k: f.is_monotone_at(k))]
    for k in range(m):
        dep = sorted(i for i in range(n) if any(rows[j][k] != rows[j ^ (1 << (n - 1 - i))][k] for j in range(1 << n)))
        for qname, call in qs:
            answers = {}
            for rname, f in reprs.items():
                try:
                    answers[rname] = call(f, k)
                except Exception as e:  # noqa: BLE001
                    answers[rname] = f"raised {type(e).__name__}"
            p.case(("c12w", spec, k, qname), sample=f"{qname} of output {k} of a {kind} over inputs {picks} of {n}: {answers['Circuit']}" if len(p.samples) < 4 else None)
            same = all(a == answers["Circuit"] and type(a) is type(answers["Circuit"]) for a in answers.values())
            right = answers["Circuit"] == dep if qname == "get_significant_inputs_of" else True
            p.queries["unsat" if same and right else "sat"] += 1
            if not (same and right):
                p.violation(f"function:wide:{qname.split('(')[0]}", f"{qname} of output {k} of a {kind} over inputs {picks} of {n} inputs: {answers}" + (f", definition {dep}" if not right else ""),
                            REPLAY_PRELUDE + "from checks import c12\nfrom vlib.report import Partial\n" + f"p=Partial()\nc12.wide_unit(p, {spec!r}, 'quick', 0)\nprint([v['what'][:200] for v in p.violations])\nsys.exit(1 if p.violations else 0)\n")
                return


# ---------------------------------------------------------------- queries interleaved with edits
def history_unit(p, item, tier, seed):
    """A Circuit is queried, edited through the public API, and queried again: every answer must be the definition
    for the function the circuit computes *now* (nothing remembered from before the edit)."""
    from checks import mutators

    rnd = random.Random(item)
    for i in range(30 if tier == "quick" else 100):
        c0 = circgen.random_circuit(rnd, rnd.randint(1, 3), rnd.randint(1, 5), max_arity=2, n_outputs=rnd.randint(1, 2))
        c = mutators.rebuild(c0)
        calls = []
        src_calls = []
        bad = None
        for step in range(3):
            n, m = len(c.inputs), len(c.outputs)
            if not (1 <= n <= 3 and 1 <= m <= 2):
                break
            T = [[z3.BoolVal(v) for v in r] for r in ref_table(c)]
            for qname, call, spec in queries(n, m):
                try:
                    res = call(c)
                    wrong = z3.is_true(z3.simplify(wrong_term(T, n, spec, res)))
                    what = f"answered {res}"
                except Exception as e:  # noqa: BLE001
                    wrong, what = True, f"raised {type(e).__name__}: {e}"
                if wrong:
                    bad = (qname, what)
                    break
            p.case(("c12h", item, i, step))
            p.queries["sat" if bad else "unsat"] += 1
            if bad:
                break
            mc = mutators.random_call(rnd, c, step=step, kinds=["order_inputs", "order_outputs", "set_inputs", "set_outputs", "rename_gate", "mark_as_output", "reinsert", "add_gate", "replace_inputs"])
            if mc is None:
                continue
            try:
                c = mutators.apply_call(c, mc)
                calls.append(mc)
            except Exception:  # noqa: BLE001
                break
        if bad:
            p.violation(f"function:Circuit:{bad[0].split('(')[0].split('[')[0]}:after-edits", f"after {calls} on {circ.describe(c0)}: {bad[0]} {bad[1]}, which is not the definition for the circuit as it is now",
                        REPLAY_PRELUDE + circ.circ_src(c0) + "\nfrom checks import c12, mutators\nimport z3\n" + f"calls={calls!r}\nbad=None\n"
                        "for k in range(len(calls)+1):\n"
                        "    n, m = len(c.inputs), len(c.outputs)\n    T=[[z3.BoolVal(v) for v in r] for r in c12.ref_table(c)]\n"
                        "    for qn, call, spec in c12.queries(n, m):\n"
                        "        try:\n            w=z3.is_true(z3.simplify(c12.wrong_term(T, n, spec, call(c))))\n        except Exception as e:\n            w=True\n"
                        "        if w: bad=(k, qn); break\n"
                        "    if bad or k==len(calls): break\n    c=mutators.apply_call(c, calls[k])\n"
                        "print(bad); sys.exit(1 if bad else 0)\n")
            return


# ---------------------------------------------------------------- canonical index helpers, argument shapes
SHAPES = {
    "list": "list(bits)", "tuple": "tuple(bits)", "iterator": "iter(list(bits))", "generator": "(b for b in bits)", "map": "map(lambda b: b, bits)",
}


def index_unit(p, item, tier, seed):
    """input_to_canonical_index takes an Iterable: every way of handing over the same bits gives the big-endian number;
    canonical_index_to_input and get_bit_value are its inverse and its projections."""
    from cirbo.core import utils as U

    n, shape = item
    bits_t = [z3.Bool(f"b{i}") for i in range(n)]
    expected = z3.Sum([z3.If(b, 1 << (n - 1 - i), 0) for i, b in enumerate(bits_t)]) if n else z3.IntVal(0)

    def body():
        bits = [SB(b) for b in bits_t]
        return U.input_to_canonical_index(eval(SHAPES[shape], {"bits": bits}))  # noqa: S307

    paths, stats = forkexec.explore(body, max_paths=4096, catch=(Exception,))
    p.case(("c12-index", n, shape), sample=f"input_to_canonical_index over {n} symbolic bits handed over as {shape}: {stats['paths']} paths")
    if stats["covered"]:
        p.queries["unsat"] += 1
    else:
        p.error(f"coverage not proven for input_to_canonical_index {n} {shape}")
    s = z3.Solver()
    for path in paths:
        s.push()
        s.add(path.cond())
        if path.exc is None:
            s.add(expected != path.result)
        r = str(s.check())
        p.queries["unsat" if r == "unsat" else "sat" if r == "sat" else "unknown"] += 1
        if r == "sat":
            mod = s.model()
            vals = [symeval.model_bool(mod, b) for b in bits_t]
            p.violation(f"function:input_to_canonical_index:{shape}", f"input_to_canonical_index of {vals} handed over as {shape} " + (f"raised {type(path.exc).__name__}" if path.exc is not None else f"is {path.result}") + ", not the big-endian number",
                        REPLAY_PRELUDE + "from cirbo.core import utils as U\n" + f"bits={vals!r}\nexp=int(''.join('1' if b else '0' for b in bits) or '0', 2)\n"
                        f"try:\n    got=U.input_to_canonical_index({SHAPES[shape]})\nexcept Exception as e:\n    print(type(e).__name__, e); sys.exit(1)\nprint(got, exp); sys.exit(1 if got!=exp else 0)\n")
            s.pop()
            return
        s.pop()
    if shape == "list":
        for j in range(1 << n):
            back = list(U.canonical_index_to_input(j, n))
            proj = [U.get_bit_value(j, i, n) for i in range(n)]
            p.case(("c12-index-back", n, j))
            if back != bits_of(j, n) or proj != bits_of(j, n):
                p.violation("function:canonical_index_to_input", f"canonical_index_to_input({j},{n})={back}, get_bit_value bits={proj}, expected {bits_of(j, n)}",
                            REPLAY_PRELUDE + "from cirbo.core import utils as U\n" + f"j={j}; n={n}\nexp=[bool((j>>(n-1-i))&1) for i in range(n)]\n"
                            "bad = list(U.canonical_index_to_input(j,n))!=exp or [U.get_bit_value(j,i,n) for i in range(n)]!=exp\nprint(bad); sys.exit(1 if bad else 0)\n")
                return


ALIAS_SRC = """
def alias_problems(rows):
    # the caller keeps editing the list it built the TruthTable from: the function object must not follow
    import copy, z3
    from checks import c12
    from cirbo.core.truth_table import TruthTable
    mine = copy.deepcopy(rows)
    f = TruthTable(mine)
    for r in mine:
        for j in range(len(r)):
            r[j] = not r[j]
    mine.reverse()
    m, n = len(rows), (len(rows[0]).bit_length() - 1)
    T = [[z3.BoolVal(v) for v in r] for r in rows]
    bad = []
    for qn, call, spec in c12.queries(n, m):
        try:
            if z3.is_true(z3.simplify(c12.wrong_term(T, n, spec, call(f)))):
                bad.append(qn)
        except Exception as e:
            bad.append((qn, type(e).__name__))
    return bad
"""
exec(ALIAS_SRC)  # noqa: S102


def alias_unit(p, item, tier, seed):
    n, m, lo, hi = item
    cells = m * (1 << n)
    for code in range(lo, hi):
        rows = [[bool((code >> (k * (1 << n) + j)) & 1) for j in range(1 << n)] for k in range(m)]
        bad = alias_problems(rows)  # noqa: F821
        p.case(("c12-alias", n, m, code), sample=f"TruthTable built from a list the caller edits afterwards, table {rows}" if len(p.samples) < 2 else None)
        p.queries["sat" if bad else "unsat"] += 1
        if bad:
            p.violation("function:TruthTable:follows-the-callers-list", f"TruthTable({rows}) answers {bad[:4]} differently after the caller edited its own list",
                        REPLAY_PRELUDE + ALIAS_SRC + f"bad=alias_problems({rows!r})\nprint(bad[:6]); sys.exit(1 if bad else 0)\n")
            return
    assert cells <= 8

# ---------------------------------------------------------------- model completion
def completion_unit(p, item, tier, seed):
    n, m, mask = item  # mask: tuple of (k,j) don't-care positions
    rows = 1 << n
    T = [[z3.Bool(f"t_{k}_{j}") for j in range(rows)] for k in range(m)]
    D = {pos: z3.Bool(f"d_{pos[0]}_{pos[1]}") for pos in mask}
    definition = {(tuple(bits_of(j, n)), k): SB(D[(k, j)]) for (k, j) in mask}
    expect = [[D[(k, j)] if (k, j) in D else T[k][j] for j in range(rows)] for k in range(m)]

    def model_table():
        return [[DontCare if (k, j) in D else SB(T[k][j]) for j in range(rows)] for k in range(m)]

    def tt_body():
        tm = TruthTableModel([["*" if (k, j) in D else False for j in range(rows)] for k in range(m)])
        tm._table = model_table()
        tm._table_t = [list(c) for c in zip(*tm._table)]
        f = tm.define(definition)
        return [list(r) for r in f.get_truth_table()]

    def py_body():
        tab = model_table()
        pm = PyFunctionModel(lambda xs: [tab[k][idx_of(xs)] for k in range(m)], input_size=n, output_size=m)
        f = pm.define(definition)
        return [list(r) for r in f.get_truth_table()]

    def py_shared_body():
        # the model's callable hands out its *stored* rows (as TruthTableModel.check does); completing the model twice
        # with different definitions must not write into the model
        tab_t = [list(col) for col in zip(*model_table())]
        pm = PyFunctionModel(lambda xs: tab_t[idx_of(xs)], input_size=n, output_size=m)
        other = {key: SB(z3.Not(v.term)) for key, v in definition.items()}
        f1 = pm.define(other)
        [list(r) for r in f1.get_truth_table()]
        f2 = pm.define(definition)
        res = [list(r) for r in f2.get_truth_table()]
        still = pm.get_model_truth_table()
        if any((still[k][j] is DontCare) != ((k, j) in D) for k in range(m) for j in range(rows)):
            raise AssertionError("completing the model changed the model itself")
        return res

    def tt_via_py_body():
        tm = TruthTableModel([["*" if (k, j) in D else False for j in range(rows)] for k in range(m)])
        tm._table = model_table()
        tm._table_t = [list(c) for c in zip(*tm._table)]
        pm = PyFunctionModel(tm.check, input_size=n, output_size=m)
        other = {key: SB(z3.Not(v.term)) for key, v in definition.items()}
        [list(r) for r in pm.define(other).get_truth_table()]
        return [list(r) for r in pm.define(definition).get_truth_table()]

    def tt_copy_body():
        # the model went through copy.deepcopy (as it does when handed to another owner) before being completed
        tm = TruthTableModel([["*" if (k, j) in D else False for j in range(rows)] for k in range(m)])
        tm._table = model_table()
        tm._table_t = [list(c) for c in zip(*tm._table)]
        tm = copy.deepcopy(tm)
        got = [[tm.check_at(bits_of(j, n), k) for j in range(rows)] for k in range(m)]
        if any((got[k][j] == DontCare) != ((k, j) in D) for k in range(m) for j in range(rows)):
            raise AssertionError("a copied model no longer reports its don't-care cells as DontCare")
        f = PyFunctionModel(tm.check, input_size=n, output_size=m).define(definition)
        return [list(r) for r in f.get_truth_table()]

    def tt_copy_define_body():
        tm = TruthTableModel([["*" if (k, j) in D else False for j in range(rows)] for k in range(m)])
        tm._table = model_table()
        tm._table_t = [list(c) for c in zip(*tm._table)]
        f = copy.deepcopy(tm).define(definition)
        return [list(r) for r in f.get_truth_table()]

    def tt_twice_body():
        # the model stays a model: after one completion its own table still has its don't-cares, check() and
        # get_model_truth_table() still agree, an incomplete definition is still refused, and a second completion
        # does not see anything of the first
        from cirbo.core.exceptions import BadBooleanValue

        tm = TruthTableModel([["*" if (k, j) in D else False for j in range(rows)] for k in range(m)])
        tm._table = model_table()
        tm._table_t = [list(c) for c in zip(*tm._table)]
        other = {key: SB(z3.Not(v.term)) for key, v in definition.items()}
        [list(r) for r in tm.define(other).get_truth_table()]
        still = tm.get_model_truth_table()
        if any((still[k][j] is DontCare) != ((k, j) in D) for k in range(m) for j in range(rows)):
            raise AssertionError("completing the model changed the model's own table")
        if any((tm.check_at(bits_of(j, n), k) == DontCare) != ((k, j) in D) for k in range(m) for j in range(rows)):
            raise AssertionError("completing the model changed what the model's check_at reports")
        if definition:
            first = next(iter(definition))
            try:
                tm.define({key: v for key, v in definition.items() if key != first})
            except BadBooleanValue:
                pass
            else:
                raise AssertionError("a definition that leaves a don't-care cell open was accepted after an earlier completion")
        return [list(r) for r in tm.define(definition).get_truth_table()]

    for name, body in (("model kept: TruthTableModel.define twice", tt_twice_body), ("TruthTableModel.define", tt_body), ("PyFunctionModel.define", py_body),
                       ("deepcopy(TruthTableModel).define", tt_copy_define_body), ("PyFunctionModel(deepcopy(TruthTableModel).check).define", tt_copy_body),
                       ("PyFunctionModel.define(stored rows, twice)", py_shared_body), ("PyFunctionModel(TruthTableModel.check).define twice", tt_via_py_body)):
        paths, stats = forkexec.explore(body, max_paths=100000, catch=(Exception,))
        p.case(("define", name, n, m, mask), sample=f"{name} {m}x{rows} with don't-cares at {mask}: {stats['paths']} paths" if len(p.samples) < 8 else None)
        if stats["covered"]:
            p.queries["unsat"] += 1
        else:
            p.error(f"coverage not proven for {name}")
        for path in paths:
            if path.exc is not None:
                wrong, what = z3.BoolVal(True), f"raised {type(path.exc).__name__}: {path.exc}"
            else:
                wrong, what = wrong_term(expect, n, ("table",), path.result), "returned a different table"
            r, mod = p.check([path.cond(), wrong], label=name)
            if r == "sat":
                table = [["*" if (k, j) in D else symeval.model_bool(mod, T[k][j]) for j in range(rows)] for k in range(m)]
                dvals = {pos: symeval.model_bool(mod, v) for pos, v in D.items()}
                p.violation(f"define:{name}", f"{name} on {table} with definition {dvals} {what}",
                            REPLAY_PRELUDE + "from checks import c12\nfrom cirbo.core.truth_table import TruthTableModel\nfrom cirbo.core.python_function import PyFunctionModel\nfrom cirbo.core.logic import DontCare\n"
                            f"table={table!r}; dvals={dvals!r}; n={n}; m={m}\n"
                            "definition={(tuple(c12.bits_of(j,n)),k): v for (k,j),v in dvals.items()}\n"
                            "exp=[[dvals[(k,j)] if v=='*' else v for j,v in enumerate(r)] for k,r in enumerate(table)]\n"
                            "raw=[[DontCare if v=='*' else v for v in r] for r in table]\n"
                            f"name={name!r}\n"
                            "other={k: (not v) for k,v in definition.items()}\n"
                            "import copy\n"
                            "try:\n    if name.startswith('model kept'):\n"
                            "        from cirbo.core.exceptions import BadBooleanValue\n"
                            "        tm=TruthTableModel(raw); tm.define(other).get_truth_table(); still=tm.get_model_truth_table()\n"
                            "        assert all((still[k][j] is DontCare)==(raw[k][j] is DontCare) for k in range(m) for j in range(1<<n)), 'model table changed'\n"
                            "        assert all((tm.check_at(c12.bits_of(j,n),k)==DontCare)==(raw[k][j] is DontCare) for k in range(m) for j in range(1<<n)), 'check_at changed'\n"
                            "        if definition:\n"
                            "            first=next(iter(definition))\n"
                            "            try: tm.define({k:v for k,v in definition.items() if k!=first}); raise AssertionError('incomplete definition accepted')\n"
                            "            except BadBooleanValue: pass\n"
                            "        f=tm.define(definition)\n"
                            "    elif name.startswith('TruthTable'): f=TruthTableModel(raw).define(definition)\n"
                            "    elif name.startswith('deepcopy'): f=copy.deepcopy(TruthTableModel(raw)).define(definition)\n"
                            "    elif 'deepcopy' in name:\n        tm=copy.deepcopy(TruthTableModel(raw)); assert all((tm.check_at(c12.bits_of(j,n),k)==DontCare)==(raw[k][j] is DontCare) for k in range(m) for j in range(1<<n)); f=PyFunctionModel(tm.check, input_size=n, output_size=m).define(definition)\n"
                            "    elif 'TruthTableModel.check' in name:\n        pm=PyFunctionModel(TruthTableModel(raw).check, input_size=n, output_size=m); pm.define(other).get_truth_table(); f=pm.define(definition)\n"
                            "    elif 'stored rows' in name:\n        rows_t=[list(c) for c in zip(*raw)]; pm=PyFunctionModel(lambda xs: rows_t[c12.idx_of(xs)], input_size=n, output_size=m); pm.define(other).get_truth_table(); f=pm.define(definition)\n"
                            "    else: f=PyFunctionModel(lambda xs: [raw[k][c12.idx_of(xs)] for k in range(m)], input_size=n, output_size=m).define(definition)\n"
                            "    got=[list(map(bool,r)) for r in f.get_truth_table()]\n    bad = got!=exp\nexcept Exception as e:\n    print(type(e).__name__, e); bad=True\n"
                            "print(bad); sys.exit(1 if bad else 0)\n")
                return


# ---------------------------------------------------------------- integer wrappers
INT_FUNCS = {"id": (1, lambda a: a), "plus1": (1, lambda a: a + 1), "times3": (1, lambda a: a * 3), "add": (2, lambda a, b: a + b), "mul": (2, lambda a, b: a * b),
             "absdiff": (2, lambda a, b: abs(a - b)), "a2b": (2, lambda a, b: 2 * a + b), "first": (2, lambda a, b: a), "monus": (2, lambda a, b: max(a - b, 0)),
             # results far beyond 2**53 (every bit of a wide result must still be exact)
             "wide": (1, lambda a: a * ((1 << 60) + 1) + (1 << 57)), "cat60": (2, lambda a, b: (a << 60) + b + (1 << 54))}


def int_unit(p, item, tier, seed):
    fname, ilen, olen, be = item
    ar, fn = INT_FUNCS[fname]
    xs = [z3.Bool(f"i{j}") for j in range(ar * ilen)]
    f = PyFunction.from_int_unary_func(fn, ilen, olen, big_endian=be) if ar == 1 else PyFunction.from_int_binary_func(fn, ilen, olen, big_endian=be)

    def body():
        return list(f.evaluate([SB(x) for x in xs]))

    paths, stats = forkexec.explore(body, max_paths=100000, catch=(Exception,))
    p.case(("int", item), sample=f"from_int_{'unary' if ar == 1 else 'binary'}_func({fname}, {ilen}, {olen}, big_endian={be}): {stats['paths']} paths" if len(p.samples) < 10 else None)
    if stats["covered"]:
        p.queries["unsat"] += 1
    else:
        p.error("coverage not proven for integer wrapper")
    W = 2 * ar * ilen + 4 + (70 if fname in ("wide", "cat60") else 0)

    def num(bits):
        bits = list(bits) if be else list(bits)[::-1]  # to MSB-first
        acc = z3.BitVecVal(0, W)
        for b in bits:
            acc = acc * 2 + z3.If(b, z3.BitVecVal(1, W), z3.BitVecVal(0, W))
        return acc

    a = num(xs[:ilen])
    val = {"id": lambda: a, "plus1": lambda: a + 1, "times3": lambda: a * 3, "wide": lambda: a * ((1 << 60) + 1) + (1 << 57)}.get(fname, lambda: None)()
    if ar == 2:
        b = num(xs[ilen:])
        val = {"add": a + b, "mul": a * b, "absdiff": z3.If(z3.UGE(a, b), a - b, b - a), "a2b": 2 * a + b, "first": a,
               "monus": z3.If(z3.UGE(a, b), a - b, z3.BitVecVal(0, W)), "cat60": a * (1 << 60) + b + (1 << 54)}[fname]
    fits = z3.ULT(val, z3.BitVecVal(1 << olen, W)) if olen < W else z3.BoolVal(True)
    for path in paths:
        if path.exc is not None:
            wrong, what = fits, f"raised {type(path.exc).__name__}"
        else:
            res = path.result
            if len(res) != olen:
                # documented: result is the number on output_int_len bits; an overflowing number cannot fit
                wrong, what = fits, f"returned {len(res)} bits"
            else:
                got = num([z3.BoolVal(bool(v)) for v in res])
                wrong, what = z3.And(fits, got != val), f"returned {res}"
        r, mod = p.check([path.cond(), wrong], label="int")
        if r == "sat":
            inp = [symeval.model_bool(mod, x) for x in xs]
            p.violation(f"intfunc:{fname}:{'BE' if be else 'LE'}", f"{item} on input bits {inp} {what}",
                        REPLAY_PRELUDE + "from checks import c12\nfrom cirbo.core.python_function import PyFunction\n" + f"item={item!r}; inp={inp!r}\n"
                        "fname,ilen,olen,be=item; ar,fn=c12.INT_FUNCS[fname]\n"
                        "f=PyFunction.from_int_unary_func(fn,ilen,olen,big_endian=be) if ar==1 else PyFunction.from_int_binary_func(fn,ilen,olen,big_endian=be)\n"
                        "num=lambda bits: int(''.join('1' if b else '0' for b in (bits if be else bits[::-1])) or '0',2)\n"
                        "a=num(inp[:ilen]); exp=fn(a) if ar==1 else fn(a, num(inp[ilen:]))\n"
                        "try:\n    res=list(f.evaluate(inp)); bad = exp < (1<<olen) and (len(res)!=olen or num(res)!=exp)\nexcept Exception as e:\n    print(e); bad = exp < (1<<olen)\n"
                        "print(bad); sys.exit(1 if bad else 0)\n")
            return


def xh_unit(p, item, tier, seed):
    func, timeout = item
    res = xh.check(os.path.join(VERIF, "xh", "core_utils.py"), func, timeout_s=timeout)
    p.case(("xh", func), sample=f"CrossHair {func}: {res['status']} in {res['secs']:.0f}s")
    p.solver_s += res["secs"]
    if func == "reachability_twin":
        p.canary(res["status"] == "counterexample")
    elif res["status"] == "confirmed":
        p.queries["unsat"] += 1
    elif res["status"] == "counterexample":
        ok = None
        try:
            import sys

            sys.path.insert(0, os.path.join(VERIF, "xh"))
            import core_utils

            ok = bool(eval(res["call"], vars(core_utils)))  # noqa: S307
        except Exception:  # noqa: BLE001
            ok = False
        if ok:
            p.queries["unknown"] += 1
            p.inconclusive.append(f"CrossHair {func}: counterexample {res['call']} does not reproduce")
        else:
            p.queries["sat"] += 1
            p.violation(f"utils:{func}", f"CrossHair counterexample {res['call']}",
                        "sys.path.insert(0, os.path.join(" + repr(VERIF) + ", 'xh'))\nfrom core_utils import *\n"
                        f"try:\n    ok=bool({res['call']})\nexcept Exception as e:\n    print(e); ok=False\nsys.exit(0 if ok else 1)\n")
    else:
        p.queries["unknown"] += 1
        p.inconclusive.append(f"CrossHair {func}: {res['status']}")


def run(rep, tier, seed, only=None):
    symeval.install()
    thorough = tier == "thorough"
    rep.functions = ["TruthTable.* (12 protocol queries)", "PyFunction.* (12 protocol queries)", "Circuit.evaluate/evaluate_at/is_*/get_*/find_negations_to_make_symmetric/get_truth_table",
                     "core.circuit.utils.input_iterator_with_fixed_sum", "core.utils.input_to_canonical_index/canonical_index_to_input/get_bit_value",
                     "TruthTableModel.define, PyFunctionModel.define", "PyFunction.from_int_unary_func/from_int_binary_func"]
    rep.bounds = {"table shapes (inputs x outputs)": "quick: 1x1, 2x1, 2x2, 3x1; thorough adds 1x2, 3x2", "queries": "every protocol query with every index argument; negation search for output subsets [0],[1],[0,1],[1,0]",
                  "model completion": "n<=2, m<=2, don't-care masks of size <=3 (sampled), symbolic defined values and definitions", "integer wrappers": "6 functions, input length <=3 (binary <=2), both endiannesses"}
    rep.bounds['model kept'] = 'TruthTableModel completed twice (complement first): own table and check_at still show exactly the dont-cares, an incomplete definition is still refused, second completion exact'
    rep.outside = ["tables with more than 3 inputs or 2 outputs", "TruthTable/TruthTableModel constructors' own validation of entries (the state is constructed directly)"]
    rep.rule = "case = (shape, representation, query); all tables of the shape are covered by the explored paths (coverage proven by z3)"
    rep.explanation = ("the table is symbolic; each query runs on each representation, forking only where the real code compares table entries; per path z3 decides answer == definition; "
                       "hence the three representations agree with each other and with the definitions for every table of the shape")
    sub = lambda n: only is None or only in n  # noqa: E731
    if sub("shape"):
        shapes = [(1, 1), (2, 1), (2, 2), (3, 1)] + ([(1, 2), (3, 2)] if thorough else [])
        items = []
        for n, m in shapes:
            for rname in REPRS:
                k = 1 if (n, m) in ((1, 1), (2, 1), (1, 2)) else (6 if (n, m) != (3, 2) else 16)
                items += [(n, m, rname, (i, k)) for i in range(k)]
        # four inputs (where e.g. rotations and reflections stop generating every permutation): symmetry, constancy, monotonicity
        for rname in REPRS:
            for pref in (("is_symmetric",), ("is_constant", "is_monotone"), ("is_output_equal",)):
                items.append((4, 1, rname, None, pref))
        rep.pmap(shape_unit, items)
    if sub("index"):
        rep.pmap(index_unit, [(n, sh) for n in range(1, 7 if thorough else 6) for sh in SHAPES])
    if sub("alias"):
        rep.pmap(alias_unit, [(1, 1, 0, 4), (2, 1, 0, 16), (1, 2, 0, 16)] + [(2, 2, lo, lo + 32) for lo in range(0, 256, 32)])
    if sub("history"):
        rep.pmap(history_unit, [seed * 97 + k for k in range(16 if thorough else 8)])
    if sub("wide"):
        specs = [(9, (1, 8), "xor"), (9, (8, 1), "xor"), (11, (1, 2, 8, 10), "xor"), (10, (0, 9), "and"), (9, (2, 3, 8), "maj"), (11, (10, 3, 9, 1), "and"), (12, (11, 4), "xor")]
        if thorough:
            specs += [(n, tuple(random.Random(n * 31 + i).sample(range(n), random.Random(n + i).randint(2, 4))), kind) for n in (9, 10, 11, 12, 13) for i, kind in enumerate(("xor", "and", "maj"))]
        rep.pmap(wide_unit, specs)
    if sub("callable"):
        rep.pmap(callable_unit, [c[0] for c in _callables()])
    if sub("struct"):
        rep.pmap(struct_unit, struct_items(thorough, random.Random(seed + 5)))
    if sub("define"):
        rnd = random.Random(seed)
        items = []
        for n, m in ((1, 1), (2, 1), (2, 2), (1, 2)):
            pos = [(k, j) for k in range(m) for j in range(1 << n)]
            masks = [()] + [tuple(sorted(rnd.sample(pos, s))) for s in (1, 2, 3) if s <= len(pos) for _ in range(3 if thorough else 2)]
            items += [(n, m, mk) for mk in dict.fromkeys(masks)]
        rep.pmap(completion_unit, items)
    if sub("int"):
        items = []
        for fname, (ar, _) in INT_FUNCS.items():
            for ilen in ((1, 2, 3) if ar == 1 else (1, 2)):
                for olen in ((ilen, ilen + 1, 2 * ilen + 1) if fname not in ("wide", "cat60") else (54, 64, 60 + ilen + 3)):
                    for be in (False, True):
                        items.append((fname, ilen, olen, be))
        rep.pmap(int_unit, items)
    if sub("xh"):
        rep.pmap(xh_unit, [(f, 150 if thorough else 60) for f in ("index_roundtrip", "bit_value_agrees", "reachability_twin")])
