"""Helpers shared by the checks."""
import z3

from vlib import circ, refsem, symeval


def ref_concrete(netlist, assignment):
    """Reference value of every gate under a concrete total input assignment."""
    terms = refsem.denote(netlist, {k: z3.BoolVal(bool(v)) for k, v in assignment.items()})
    return {k: z3.is_true(z3.simplify(v)) for k, v in terms.items()}


def input_vars(circuit, prefix="x"):
    """(label -> z3 Bool, label -> SymState) for the circuit's inputs."""
    zs = {lab: z3.Bool(f"{prefix}{i}") for i, lab in enumerate(circuit.inputs)}
    return zs, {lab: symeval.SymState(v, False) for lab, v in zs.items()}


def model_assignment(model, zs):
    return {lab: symeval.model_bool(model, v) for lab, v in zs.items()}


def sym_outputs(circuit, sym_assign):
    """Positional output terms via the real lazy evaluator (two-valued -> z3 Bool list).
    Returns list of (t, u)."""
    res = circuit.evaluate_circuit(dict(sym_assign))
    return [symeval.lift(res[o]) for o in circuit.outputs]


REPLAY_PRELUDE = """
import z3
from vlib import refsem, circ
from checks.common import ref_concrete
from cirbo.core.circuit.operators import Undefined
"""
