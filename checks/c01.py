"""C01 — evaluation equals the denotational semantics of the gate network.

(a) operator lemmas: real `T.operator(*symbolic)` == reference function, arities <= 6
(b) table agreement across modules (synthesis Operation strings, _tt_to_gate_type,
    arithmetic binary_tt_to_type, subcircuit pattern simulation on z3 bit-vectors)
(c) composition: every evaluation entry point of the real Circuit, run on z3
    terms, against the reference composition of the netlist; gate types symbolic
    (mux) on the systematic family, concrete on feature/seeded families.
"""
import itertools
import random

import z3

from vlib import circ, circgen, forkexec, refsem, report, symeval
from vlib.symeval import SymState, lift, zb
from checks.common import REPLAY_PRELUDE, ref_concrete

LEVEL = "other"
TECHNIQUE = "bounded SMT: z3 terms pushed through the real operators/evaluators (guarded-union proxies), validity vs reference semantics"
USES_STUBS = True

from cirbo.core.circuit import Circuit, gate as G  # noqa: E402

TYPES = {t.name: t for t in circgen.ALL_TYPES}


def admissible_arities(t, max_arity):
    if t in circgen.UNARY:
        return [1]
    if t in circgen.BINARY_ONLY:
        return [2]
    if t in circgen.NARY:
        return list(range(2, max_arity + 1))
    return [0, 1, 2]


# --------------------------------------------------------------------- (a)
def operator_lemmas(p, item, tier, seed):
    tname, k = item
    t = TYPES[tname]
    xs = [z3.Bool(f"a{i}") for i in range(k)]
    ref = refsem.ref_op(tname, xs)
    # Normally one path.  If the operator *branches* on its operands (e.g. a rewritten fast path), the
    # forking executor explores every feasible branch instead of giving up.
    paths, stats = forkexec.explore(lambda: lift(t.operator(*[SymState(x, False) for x in xs])), catch=(Exception,), max_paths=4096)
    p.case(("oplemma", tname, k), sample=f"operator lemma {tname}/{k}: real operator(*sym) == reference ({stats['paths']} path(s))")
    if not stats["covered"]:
        p.error(f"operator {tname}/{k}: path coverage not proven")
    found = False
    for path in paths:
        if path.exc is not None:
            wrong = z3.BoolVal(True)
        else:
            res = path.result
            wrong = z3.Or(zb(res.u), zb(res.t) != ref)
        r, m = p.check([path.cond(), wrong], label=f"oplemma {tname}/{k}")
        if r == "sat":
            vals = [symeval.model_bool(m, x) for x in xs]
            p.violation(
                f"operator:{tname}:arity{k}",
                f"{tname}.operator{tuple(vals)} differs from the reference function" + (f" (raised {type(path.exc).__name__})" if path.exc else ""),
                REPLAY_PRELUDE
                + f"from cirbo.core.circuit import gate as G\n"
                f"vals={vals!r}\nexp=refsem.ref_op_py({tname!r}, vals)\n"
                f"try:\n    real=G.{tname}.operator(*vals)\nexcept Exception as e:\n    real=repr(e)\n"
                "print('real', real, 'expected', exp)\nsys.exit(1 if real is not exp else 0)\n",
            )
            found = True
            break
    if not found and len(paths) == 1 and paths[0].exc is None:
        # canary (vacuity guard): the same query against the negated oracle must be refuted
        r2, _ = p.check([zb(paths[0].result.t) != z3.Not(ref)], label="canary")
        p.canary(r2 == "sat")


# --------------------------------------------------------------------- (b)
def table_agreement(p, item, tier, seed):
    what = item
    pb, qb = z3.Bool("p"), z3.Bool("q")

    def bit_of_string(s):
        # entry index 2p+q of a 4-character 0/1 string, as a z3 term over p,q
        e = [z3.BoolVal(ch == "1") if isinstance(ch, str) else z3.BoolVal(bool(ch)) for ch in s]
        return z3.If(pb, z3.If(qb, e[3], e[2]), z3.If(qb, e[1], e[0]))

    def real_op_term(t):
        # an operator that branches on its operands' values is followed along every branch
        paths, _st = forkexec.explore(lambda: lift(t.operator(SymState(pb, False), SymState(qb, False))), catch=(), max_paths=64, max_seconds=10)
        if len(paths) == 1:
            r = paths[0].result
            return zb(r.t), zb(r.u)
        return (z3.Or(*[z3.And(pp.cond(), zb(pp.result.t)) for pp in paths]), z3.Or(*[z3.And(pp.cond(), zb(pp.result.u)) for pp in paths]))

    if what == "circuit_search.Operation":
        from cirbo.synthesis import circuit_search as cs

        by_opname = {t._operator.__name__: t for t in circgen.ALL_TYPES if t not in circgen.UNARY}
        for op in cs.Operation:
            t = by_opname.get(op.name)
            if t is None:
                p.error(f"Operation.{op.name} has no gate type with that operator")
                continue
            p.case(("Operation", op.name), sample=f"Operation.{op.name}={op.value} vs {t.name}")
            rt, ru = real_op_term(t)
            ref = refsem.ref_op(t.name, [pb, qb])
            r, m = p.check([z3.Or(bit_of_string(op.value) != ref, bit_of_string(op.value) != rt)],
                           label=f"Operation {op.name}")
            if r == "sat":
                pv, qv = symeval.model_bool(m, pb), symeval.model_bool(m, qb)
                p.violation(
                    f"table:circuit_search.Operation:{op.name}",
                    f"Operation.{op.name}='{op.value}' disagrees with {t.name} at (p,q)=({pv},{qv})",
                    REPLAY_PRELUDE
                    + "from cirbo.synthesis import circuit_search as cs\n"
                    f"v=cs.Operation[{op.name!r}].value\nexp=refsem.ref_op_py({t.name!r}, [{pv},{qv}])\n"
                    f"got=v[2*{int(pv)}+{int(qv)}]=='1'\nprint(v, got, exp)\nsys.exit(1 if got!=exp else 0)\n",
                )
        # bases: AIG must not contain xor/nxor, all bases subsets of FULL
        p.case(("Basis",))
    elif what == "circuit_search._tt_to_gate_type":
        from cirbo.synthesis import circuit_search as cs

        seen = set()
        for tt, t in cs._tt_to_gate_type.items():
            seen.add(tuple(tt))
            p.case(("_tt_to_gate_type", tuple(tt)), sample=f"_tt_to_gate_type[{tt}]={t.name}")
            rt, ru = real_op_term(t)
            ref = refsem.ref_op(t.name, [pb, qb])
            r, m = p.check([z3.Or(bit_of_string(tt) != ref, bit_of_string(tt) != rt)],
                           label=f"_tt_to_gate_type {tt}")
            if r == "sat":
                pv, qv = symeval.model_bool(m, pb), symeval.model_bool(m, qb)
                p.violation(
                    f"table:circuit_search._tt_to_gate_type:{''.join(str(int(b)) for b in tt)}",
                    f"_tt_to_gate_type[{tt}]={t.name} disagrees at (p,q)=({pv},{qv})",
                    REPLAY_PRELUDE
                    + "from cirbo.synthesis import circuit_search as cs\n"
                    f"t=cs._tt_to_gate_type[{tuple(tt)!r}]\nexp=bool({tuple(tt)!r}[2*{int(pv)}+{int(qv)}])\n"
                    f"got=t.operator({pv},{qv})\nprint(t.name, got, exp)\nsys.exit(1 if got!=exp else 0)\n",
                )
        if len(seen) != 16:
            p.error(f"_tt_to_gate_type has {len(seen)} of 16 tables")
    elif what == "arithmetics._utils.binary_tt_to_type":
        from cirbo.synthesis.generation.arithmetics import _utils

        for s, t in _utils.binary_tt_to_type.items():
            p.case(("binary_tt_to_type", s), sample=f"binary_tt_to_type['{s}']={t.name}")
            rt, ru = real_op_term(t)
            ref = refsem.ref_op(t.name, [pb, qb])
            r, m = p.check([z3.Or(bit_of_string(s) != ref, bit_of_string(s) != rt)],
                           label=f"binary_tt_to_type {s}")
            if r == "sat":
                pv, qv = symeval.model_bool(m, pb), symeval.model_bool(m, qb)
                p.violation(
                    f"table:binary_tt_to_type:{s}",
                    f"binary_tt_to_type['{s}']={t.name} disagrees at (p,q)=({pv},{qv})",
                    REPLAY_PRELUDE
                    + "from cirbo.synthesis.generation.arithmetics import _utils\n"
                    f"t=_utils.binary_tt_to_type[{s!r}]\nexp={s!r}[2*{int(pv)}+{int(qv)}]=='1'\n"
                    f"got=t.operator({pv},{qv})\nprint(t.name, got, exp)\nsys.exit(1 if got!=exp else 0)\n",
                )
        if len(_utils.binary_tt_to_type) != 16:
            p.error("binary_tt_to_type does not list 16 tables")
    elif what == "subcircuit._PatternOperations":
        from cirbo.minimization import subcircuit as sc

        for nin in (1, 2, 3):
            w = 1 << nin
            po = sc._PatternOperations(nin)
            for tname, k in [("NOT", 1)] + [(t, 2) for t in ["AND", "NAND", "OR", "NOR", "XOR", "NXOR", "GEQ", "LT", "LEQ", "GT"]] \
                    + [(t, k) for t in ["AND", "NAND", "OR", "NOR", "XOR", "NXOR"] for k in (3, 4, 5)]:
                ops = [z3.BitVec(f"pat{i}", w) for i in range(k)]
                res = po.eval_pattern(list(ops), tname)
                p.case(("pattern", nin, tname, k), sample=f"eval_pattern({tname}) on {k} {w}-bit symbolic patterns")
                dis = []
                for bit in range(w):
                    rb = z3.Extract(bit, bit, res) == 1
                    ob = [z3.Extract(bit, bit, o) == 1 for o in ops]
                    dis.append(rb != refsem.ref_op(tname, ob))
                r, m = p.check([z3.Or(*dis)], label=f"pattern {tname}/{nin}")
                if r == "sat":
                    vals = [m.eval(o, model_completion=True).as_long() for o in ops]
                    p.violation(
                        f"table:subcircuit.eval_pattern:{tname}:arity{k}",
                        f"eval_pattern({vals},{tname}) with {nin} inputs is not the bitwise {tname}",
                        REPLAY_PRELUDE
                        + "from cirbo.minimization import subcircuit as sc\n"
                        f"po=sc._PatternOperations({nin}); vals={vals!r}\n"
                        f"got=po.eval_pattern(list(vals), {tname!r})\nbad=False\n"
                        f"for bit in range({w}):\n"
                        f"    exp=refsem.ref_op_py({tname!r}, [bool((v>>bit)&1) for v in vals])\n"
                        "    bad |= bool((got>>bit)&1)!=exp\n"
                        "print(got, bad)\nsys.exit(1 if bad else 0)\n",
                    )
        # unsupported types must be rejected, not mis-simulated
        from cirbo.minimization.exception import UnsupportedOperationError

        for tname in ["IFF", "LNOT", "RNOT", "LIFF", "RIFF", "ALWAYS_TRUE", "ALWAYS_FALSE"]:
            try:
                sc._PatternOperations(2).eval_pattern([3, 5], tname)
                p.note(f"eval_pattern accepts {tname}")
            except UnsupportedOperationError:
                pass

    elif what == "subcircuit._get_subcircuits":
        # the cone tables that the enumerator hands to synthesis: bit k of patterns[out] is the value of `out`
        # when the announced leaves (inputs[0] most significant) spell k
        import collections

        import mockturtle_wrapper as mw
        from cirbo.minimization import subcircuit as sc

        # leaf patterns: bit k of the pattern of leaf j is bit j of k, for every documented cut size and beyond
        for size in range(0, 9):
            pats = sc._generate_inputs_tt(size)
            p.case(("leaf-patterns", size), sample=f"_generate_inputs_tt({size})" if size == 6 else None)
            wrong = len(pats) != size or any(not isinstance(v, int) or v != sum(((k >> j) & 1) << k for k in range(1 << size)) for j, v in enumerate(pats))
            p.queries["sat" if wrong else "unsat"] += 1
            if wrong:
                p.violation("table:subcircuit.leaf-patterns", f"_generate_inputs_tt({size}) is not the table of the {size} projections: {[hex(v) for v in pats][:4]}",
                            REPLAY_PRELUDE + "from cirbo.minimization import subcircuit as sc\n" + f"size={size}\npats=sc._generate_inputs_tt(size)\n"
                            "bad = len(pats)!=size or any(v != sum(((k>>j)&1)<<k for k in range(1<<size)) for j,v in enumerate(pats))\nprint(bad); sys.exit(1 if bad else 0)\n")
                break
        pool = [getattr(G, n) for n in ["NOT", "AND", "NAND", "OR", "NOR", "XOR", "NXOR", "GEQ", "LT", "LEQ", "GT"]]
        rnd = random.Random(4242 + seed)
        names = ["a", "b", "zz", "k1", "q", "m7", "w", "x0", "x1", "n", "g3", "h", "t", "u2", "v", "p", "r", "s9", "c", "d"]
        for trial in range(200 if tier == "thorough" else 50):
            labels = rnd.sample(names, len(names))
            c = circgen.random_circuit(rnd, rnd.randint(2, 4), rnd.randint(3, 9), pool=pool, max_arity=2, labels=labels,
                                       allow_dup_operands=False, outputs_may_be_inputs=False)
            src = circ.circ_src(c)
            cut_size = rnd.choice([2, 3, 4])
            node_cuts = mw.enumerate_cuts(c.format_circuit(), cut_size, 25, 10000)
            cut_nodes = collections.defaultdict(set)
            for node, cuts in node_cuts.items():
                for cut in cuts:
                    cut_nodes[tuple(cut)].add(node)
            subs = sc._get_subcircuits(c, list(cut_nodes.keys()), cut_nodes, 10, cut_size)
            nl = circ.netlist_of(c)
            types = {lab: t for lab, (t, _) in nl.items()}
            opsof = {lab: ops for lab, (_, ops) in nl.items()}
            for sub_ in subs:
                leaves = list(sub_.inputs)
                n = len(leaves)
                zs = {l: z3.Bool(f"leaf{i}") for i, l in enumerate(leaves)}
                val = dict(zs)
                ok = True
                for g in sub_.gates:
                    if g in val:
                        continue
                    if any(o not in val for o in opsof.get(g, ())) or g not in types:
                        ok = False
                        break
                    val[g] = refsem.ref_op(types[g], [val[o] for o in opsof[g]])
                p.case(("cone-table", circ.snapshot(c)[:3], tuple(leaves)), sample=f"_get_subcircuits: cone over {leaves} of {circ.describe(c)}")
                if not ok:
                    p.violation("table:subcircuit.cone:not-closed", f"cone over {leaves} lists gates whose operands are outside it: {sub_.gates} in {circ.describe(c)}",
                                REPLAY_PRELUDE + CONE_SRC + src + f"\nbad=cone_problems(c, {cut_size})\nprint(bad[:3])\nsys.exit(1 if bad else 0)\n")
                    continue
                dis = []
                for k in range(1 << n):
                    at = z3.And(*[zs[l] == bool((k >> (n - 1 - j)) & 1) for j, l in enumerate(leaves)]) if leaves else z3.BoolVal(True)
                    for o in sub_.outputs:
                        dis.append(z3.And(at, val[o] != bool((sub_.patterns[o] >> k) & 1)))
                r, m = p.check([z3.Or(*dis)] if dis else [z3.BoolVal(False)], label="cone table")
                if r == "sat":
                    p.violation("table:subcircuit.cone:pattern", f"the table of the cone over leaves {leaves} (outputs {sub_.outputs}) is not the function its gates compute, in {circ.describe(c)} with cut_size={cut_size}",
                                REPLAY_PRELUDE + CONE_SRC + src + f"\nbad=cone_problems(c, {cut_size})\nprint(bad[:3])\nsys.exit(1 if bad else 0)\n")


CONE_SRC = '''
def cone_problems(c, cut_size):
    import collections, itertools
    import mockturtle_wrapper as mw
    from cirbo.minimization import subcircuit as sc
    node_cuts = mw.enumerate_cuts(c.format_circuit(), cut_size, 25, 10000)
    cut_nodes = collections.defaultdict(set)
    for node, cuts in node_cuts.items():
        for cut in cuts:
            cut_nodes[tuple(cut)].add(node)
    bad = []
    for s in sc._get_subcircuits(c, list(cut_nodes.keys()), cut_nodes, 10, cut_size):
        leaves, n = list(s.inputs), len(s.inputs)
        for k, bits in enumerate(itertools.product((False, True), repeat=n)):
            val = dict(zip(leaves, bits))
            for g in s.gates:
                if g in val:
                    continue
                gate = c.get_gate(g)
                if any(o not in val for o in gate.operands):
                    bad.append(('not closed', leaves, g)); break
                val[g] = refsem.ref_op_py(gate.gate_type.name, [val[o] for o in gate.operands])
            else:
                for o in s.outputs:
                    if val[o] != bool((s.patterns[o] >> k) & 1):
                        bad.append((leaves, o, k))
    return bad
'''

# --------------------------------------------------------------------- (c)
def _entrypoint_disagreements(c, zs, ER):
    """[(name, z3 disagreement term)] for every evaluation entry point of `c`."""
    sym = {lab: SymState(v, False) for lab, v in zs.items()}
    dis = []

    def cmp(name, lab, val):
        s = lift(val)
        dis.append((name, lab, z3.Or(zb(s.u), zb(s.t) != ER[lab])))

    # the caller's assignment must not be written to (it may be reused with more inputs defined)
    for entry in ("evaluate_full_circuit", "evaluate_circuit", "evaluate_circuit_outputs"):
        arg = dict(sym)
        getattr(c, entry)(arg)
        if set(arg) != set(sym) or any(arg[k] is not sym[k] for k in sym):
            dis.append((entry + ":writes-into-the-assignment-argument", None, z3.BoolVal(True)))
    full = c.evaluate_full_circuit(dict(sym))
    if set(full) != set(c.gates):
        dis.append(("evaluate_full_circuit:keys", None, z3.BoolVal(True)))
    for lab, v in full.items():
        if lab in ER:
            cmp("evaluate_full_circuit", lab, v)
    from cirbo.core.circuit.operators import _Undefined

    lazy = c.evaluate_circuit(dict(sym))
    if set(lazy) != set(c.gates):
        dis.append(("evaluate_circuit:keys", None, z3.BoolVal(True)))
    for lab, v in lazy.items():
        if isinstance(v, _Undefined):
            if lab in c.outputs:
                dis.append(("evaluate_circuit:output-undefined", lab, z3.BoolVal(True)))
            continue
        cmp("evaluate_circuit", lab, v)
    labs = list(c.gates)
    if len(labs) > 60:  # per-gate cones of a large circuit: a spread of 40 gates (first, last and every k-th)
        step = max(1, len(labs) // 38)
        labs = sorted(set(labs[::step] + labs[:1] + labs[-1:]), key=labs.index)
    for lab in labs:
        sub = c.evaluate_circuit(dict(sym), outputs=[lab])
        cmp("evaluate_circuit(outputs=[g])", lab, sub[lab])
    outs = c.evaluate_circuit_outputs(dict(sym))
    if set(outs) != set(c.outputs):
        dis.append(("evaluate_circuit_outputs:keys", None, z3.BoolVal(True)))
    for lab, v in outs.items():
        cmp("evaluate_circuit_outputs", lab, v)
    xs = [sym[i] for i in c.inputs]
    ev = c.evaluate(xs)
    if len(ev) != len(c.outputs):
        dis.append(("evaluate:length", None, z3.BoolVal(True)))
    for i, v in enumerate(ev):
        cmp(f"evaluate[{i}]", c.outputs[i], v)
    for i in range(len(c.outputs)):
        cmp(f"evaluate_at({i})", c.outputs[i], c.evaluate_at(xs, i))
    return dis


def _tt_disagreements(c, ER_at_row):
    """get_truth_table / get_gates_truth_table entries vs reference at each row."""
    dis = []
    n = len(c.inputs)
    tt = c.get_truth_table()
    if len(tt) != len(c.outputs) or any(len(r) != (1 << n) for r in tt):
        dis.append(("get_truth_table:shape", None, z3.BoolVal(True)))
        return dis
    gtt = c.get_gates_truth_table()
    for row, bits in enumerate(itertools.product((False, True), repeat=n)):
        ref = ER_at_row(bits)
        for i, o in enumerate(c.outputs):
            s = lift(tt[i][row])
            dis.append((f"get_truth_table[{i}][{row}]", o, z3.Or(zb(s.u), zb(s.t) != ref[o])))
        for lab in c.gates:
            if lab not in gtt or len(gtt[lab]) != (1 << n):
                dis.append(("get_gates_truth_table:shape", lab, z3.BoolVal(True)))
                continue
            s = lift(gtt[lab][row])
            dis.append((f"get_gates_truth_table[{row}]", lab, z3.Or(zb(s.u), zb(s.t) != ref[lab])))
    return dis


def _replay_for(c_src, assign, entry, lab):
    return (
        REPLAY_PRELUDE
        + c_src
        + f"\nassign={assign!r}\nexp=ref_concrete(circ.netlist_of(c), assign)\n"
        "bad=[]\n"
        "for entry in ('evaluate_full_circuit','evaluate_circuit','evaluate_circuit_outputs'):\n"
        "    arg=dict(assign); getattr(c,entry)(arg)\n"
        "    if arg!=assign: bad.append((entry,'writes into the assignment argument'))\n"
        "full=c.evaluate_full_circuit(dict(assign))\n"
        "for k in c.gates:\n"
        "    if k not in full or full[k] is not exp[k]: bad.append(('evaluate_full_circuit',k))\n"
        "lazy=c.evaluate_circuit(dict(assign))\n"
        "for k,v in lazy.items():\n"
        "    if v == Undefined:\n"
        "        if k in c.outputs: bad.append(('evaluate_circuit undefined output',k))\n"
        "    elif v is not exp[k]: bad.append(('evaluate_circuit',k))\n"
        "for k in c.gates:\n"
        "    if c.evaluate_circuit(dict(assign), outputs=[k])[k] is not exp[k]: bad.append(('evaluate_circuit(outputs)',k))\n"
        "xs=[assign[i] for i in c.inputs]\n"
        "ev=c.evaluate(xs)\n"
        "if [exp[o] for o in c.outputs]!=list(ev): bad.append(('evaluate',))\n"
        "for i,o in enumerate(c.outputs):\n"
        "    if c.evaluate_at(xs,i) is not exp[o]: bad.append(('evaluate_at',i))\n"
        "row=int(''.join('1' if x else '0' for x in xs) or '0',2)\n"
        "tt=c.get_truth_table()\n"
        "for i,o in enumerate(c.outputs):\n"
        "    if tt[i][row] is not exp[o]: bad.append(('get_truth_table',i,row))\n"
        "g=c.get_gates_truth_table()\n"
        "for k in c.gates:\n"
        "    if g[k][row] is not exp[k]: bad.append(('get_gates_truth_table',k,row))\n"
        f"print('entry point flagged by solver: {entry} gate {lab}')\n"
        "print('disagreements with reference semantics:', bad)\nsys.exit(1 if bad else 0)\n"
    )


def _check_concrete_circuit(p, name, c, with_tt=True, build_src=None):
    zs = {lab: z3.Bool(f"x{i}") for i, lab in enumerate(c.inputs)}
    nl = circ.netlist_of(c)
    ER = refsem.denote(nl, zs)
    symeval.clear_oob()
    try:
        paths, stats = forkexec.explore(lambda: _entrypoint_disagreements(c, zs, ER), catch=(), max_paths=512, max_seconds=20)
    except forkexec.PathLimit:
        p.queries["unknown"] += 1
        p.inconclusive.append(f"{name}: the evaluator branches on gate values too many ways to decide {circ.describe(c)[:120]} by forking")
        return
    except Exception as e:  # noqa: BLE001
        if not report.raised_in_library(e):
            raise
        # an evaluation entry point refused a well-formed circuit
        p.case(("compose-raises", circ.snapshot(c)[:3]), sample=f"{name}: {circ.describe(c)}")
        p.violation(f"evaluate:raises:{type(e).__name__}:{name.split('[')[0]}",
                    f"an evaluation entry point raised {type(e).__name__}: {e} on the well-formed circuit {circ.describe(c)}",
                    _replay_for(build_src or circ.circ_src(c), {lab: False for lab in c.inputs}, "raised " + type(e).__name__, None))
        return
    if len(paths) > 1:
        p.count("circuits_evaluated_on_several_paths")
        dis = [("forked", None, z3.Or(*[z3.And(pp.cond(), z3.Or(*[d[2] for d in pp.result])) for pp in paths]))]
        for pp in paths:
            dis += [(d[0], d[1], z3.And(pp.cond(), d[2])) for d in pp.result]
    else:
        dis = paths[0].result
    nontrivial = any(t.name != "INPUT" for t in (g.gate_type for g in c.gates.values()))
    p.case(("compose", circ.snapshot(c)[:3]), nontrivial=nontrivial,
           sample=f"{name}: {circ.describe(c)}")
    p.count("entrypoint_terms", len(dis))
    oob = symeval.oob_guards()
    r, m = p.check([z3.Or(*[d[2] for d in dis], *[zb(g) for g in oob])], label=f"compose {name}")
    if r == "sat":
        assign = {lab: symeval.model_bool(m, v) for lab, v in zs.items()}
        bad = [(d[0], d[1]) for d in dis if symeval.model_bool(m, d[2])]
        entry, lab = bad[0] if bad else ("table index out of range", None)
        p.violation(
            f"evaluate:{entry.split('[')[0].split('(')[0]}:{name.split('[')[0]}",
            f"{entry} at gate {lab} differs from reference semantics on {assign} for {circ.describe(c)}",
            _replay_for(build_src or circ.circ_src(c), assign, entry, lab),
        )
        return
    if with_tt and len(c.inputs) <= 4:
        # truth-table entry points enumerate rows themselves (concrete types => concrete run)
        def er_row(bits):
            return ref_concrete(nl, dict(zip(c.inputs, bits)))

        def er_row_z3(bits):
            return {k: z3.BoolVal(v) for k, v in er_row(bits).items()}

        d2 = _tt_disagreements(c, er_row_z3)
        p.count("truth_table_entries", len(d2))
        r, m = p.check([z3.Or(*[d[2] for d in d2])] if d2 else [z3.BoolVal(False)],
                       label=f"tt {name}")
        if r == "sat":
            bad = [(d[0], d[1]) for d in d2 if symeval.model_bool(m, d[2])]
            entry, lab = bad[0]
            row = int(entry.split("[")[-1].rstrip("]"))
            n = len(c.inputs)
            bits = [bool((row >> (n - 1 - i)) & 1) for i in range(n)]
            assign = dict(zip(c.inputs, bits))
            p.violation(
                f"evaluate:{entry.split('[')[0]}:{name.split('[')[0]}",
                f"{entry} for gate {lab} differs from reference semantics for {circ.describe(c)}",
                _replay_for(build_src or circ.circ_src(c), assign, entry, lab),
            )


def _observe(c):
    """Read-only queries a user may interleave with edits."""
    try:
        a = {i: False for i in c.inputs}
        c.evaluate_full_circuit(dict(a))
        c.evaluate_circuit(dict(a))
        c.evaluate([False] * len(c.inputs))
        list(c.top_sort(inverse=True))
        list(c.dfs())
        c.format_circuit()
        if len(c.inputs) <= 4:
            c.get_truth_table()
    except Exception:  # noqa: BLE001
        pass


def history_circuit(rnd, tag):
    """A circuit reached through a short history of public mutator calls (+ source that replays it)."""
    from checks import mutators

    c0 = circgen.random_circuit(rnd, rnd.randint(1, 3), rnd.randint(1, 5), max_arity=3, n_outputs=rnd.randint(1, 3))
    circgen.add_random_blocks(c0, rnd, 1)
    c = mutators.rebuild(c0)
    calls = []
    for step in range(rnd.randint(1, 4)):
        call = mutators.random_call(rnd, c, step=step, kinds=(mutators.KINDS + ["reinsert"] * 4))
        if call is None or call["kind"] == "copy":
            continue
        try:
            _observe(c)  # queries between the edits (anything memoised by a query must not survive an edit)
            c = mutators.apply_call(c, call)
            calls.append(call)
        except Exception:  # noqa: BLE001
            break
    if circ.wf_problems(c, check_topsort=False):
        return None, None  # well-formedness is C02's business
    src = (circ.circ_src(c0) + "\nfrom checks import mutators\nfrom checks.c01 import _observe\n" +
           f"for call in {calls!r}:\n    _observe(c)\n    c = mutators.apply_call(c, call)\n")
    return c, src


def compose_concrete(p, item, tier, seed):
    kind, arg = item
    if kind == "feature":
        fam = circgen.feature_circuits()
        for name, c in fam[arg::4] if arg is not None else fam:
            _check_concrete_circuit(p, "feature:" + name, c)
            # relabelled + re-ordered insertion variant must behave identically
            _check_concrete_circuit(p, "feature-relabelled:" + name, _relabel_shuffle(c, random.Random(seed + 1)))
    elif kind == "large":
        name, c = circgen.large_circuits(0)[arg[0]]
        _check_concrete_circuit(p, "feature:" + name, c if not arg[1] else _relabel_shuffle(c, random.Random(seed + 1)))
    elif kind == "history":
        rnd = random.Random(arg)
        for i in range(40 if tier == "quick" else 120):
            c, src = history_circuit(rnd, f"{arg}:{i}")
            if c is not None and len(c.inputs) <= 6:
                _check_concrete_circuit(p, f"history[{arg}:{i}]", c, with_tt=(i % 4 == 0), build_src=src)
    elif kind == "seeded":
        s, count, maxg, maxi = arg
        rnd = random.Random(s)
        for i in range(count):
            c = circgen.random_circuit(
                rnd, rnd.randint(0 if i % 7 == 0 else 1, maxi), rnd.randint(1, maxg), max_arity=rnd.choice([2, 3, 5]),
                shuffle_storage=bool(i % 2),
            )
            _check_concrete_circuit(p, f"seeded[{s}:{i}]", c, with_tt=(i % 4 == 0))


def _relabel_shuffle(c, rnd):
    labs = list(c.gates)
    new = {lab: f"L{j}_{lab[::-1]}" for j, lab in enumerate(labs)}
    order = list(labs)
    rnd.shuffle(order)
    gates = [(new[l], c.gates[l].gate_type, tuple(new[o] for o in c.gates[l].operands))
             for l in labs if c.gates[l].gate_type != G.INPUT]
    return circgen.build([new[i] for i in c.inputs], gates, [new[o] for o in c.outputs], [new[l] for l in order])


def compose_symbolic_types(p, item, tier, seed):
    """Systematic topologies with *symbolic* gate types (one query per topology)."""
    n_in, topo_list = item
    limit_hits = 0
    for topo in topo_list:
        inputs = [f"x{i}" for i in range(n_in)]
        zs = {lab: z3.Bool(lab) for lab in inputs}
        nodes = list(inputs)
        sels, cands_all, gates = [], [], []
        constraints = []
        for j, ops in enumerate(topo):
            k = len(ops)
            cands = circgen.types_for_arity(k) + ([t for t in circgen.CONST] if k in (1, 2) else [])
            sel = z3.Int(f"sel{j}")
            constraints.append(z3.And(sel >= 0, sel < len(cands)))
            st = symeval.make_sym_gate_type(f"SYM{j}", cands, sel)
            gates.append((f"g{j}", st, tuple(nodes[o] for o in ops)))
            sels.append(sel)
            cands_all.append(cands)
            nodes.append(f"g{j}")
        out_choices = [[nodes[-1]], nodes + [nodes[0]]] if nodes else [[]]
        for outs in out_choices:
            c = circgen.build(inputs, gates, outs)
            # reference with the same selectors
            ER = dict(zs)
            for (lab, _, ops), sel, cands in zip(gates, sels, cands_all):
                args = [ER[o] for o in ops]
                term = z3.BoolVal(False)
                for i, t in reversed(list(enumerate(cands))):
                    term = z3.If(sel == i, refsem.ref_op(t.name, args), term)
                ER[lab] = term
            symeval.clear_oob()

            def er_row(bits):
                sub = [(zs[l], z3.BoolVal(b)) for l, b in zip(inputs, bits)]
                return {k: z3.substitute(v, *sub) if sub else v for k, v in ER.items()}

            def observe():
                d = _entrypoint_disagreements(c, zs, ER)
                if n_in <= 2:
                    d += _tt_disagreements(c, er_row)
                return d

            # code that branches on a gate value forks the run instead of stopping it
            try:
                paths, _st = forkexec.explore(observe, base=list(constraints), catch=(), max_paths=48, max_seconds=5)
            except forkexec.PathLimit:
                p.queries["unknown"] += 1
                limit_hits += 1
                if limit_hits == 1:
                    p.inconclusive.append(f"symbolic gate types, {n_in} inputs: the code under test branches on gate values more than 48 ways per topology; "
                                          f"{len(topo_list)} topologies left undecided")
                    return
                continue
            if len(paths) > 1:
                p.count("topologies_evaluated_on_several_paths")
                dis = []
                for pp in paths:
                    dis += [(d[0], d[1], z3.And(pp.cond(), d[2])) for d in pp.result]
            else:
                dis = paths[0].result
            p.case(("symtypes", n_in, tuple(topo), tuple(outs)),
                   sample=f"topology inputs={n_in} operands={topo} outputs={outs} with symbolic gate types "
                          f"({'x'.join(str(len(cc)) for cc in cands_all)} labellings)")
            p.count("type_labellings_covered", _prod(len(cc) for cc in cands_all))
            r, m = p.check(constraints + [z3.Or(*[d[2] for d in dis], *[zb(g) for g in symeval.oob_guards()])],
                           label=f"symtypes {topo}")
            if r == "sat":
                chosen = [cands[m.eval(sel, model_completion=True).as_long()] for sel, cands in zip(sels, cands_all)]
                cc = circgen.build(inputs, [(g[0], t, g[2]) for g, t in zip(gates, chosen)], outs)
                assign = {lab: symeval.model_bool(m, v) for lab, v in zs.items()}
                bad = [(d[0], d[1]) for d in dis if symeval.model_bool(m, d[2])]
                entry, lab = bad[0] if bad else ("?", None)
                if "truth_table[" in entry:
                    row = int(entry.split("[")[-1].rstrip("]"))
                    assign = {l: bool((row >> (n_in - 1 - i)) & 1) for i, l in enumerate(inputs)}
                p.violation(
                    f"evaluate:{entry.split('[')[0].split('(')[0]}:systematic",
                    f"{entry} at gate {lab} differs from reference on {assign} for {circ.describe(cc)}",
                    _replay_for(circ.circ_src(cc), assign, entry, lab),
                )
                return


DEEP_SRC = """
def deep_problems(shape, depth):
    # a deep circuit (depth far beyond Python's recursion limit) on concrete total assignments, every entry point
    import itertools
    from cirbo.core.circuit import Circuit, gate as G
    c = Circuit()
    c.add_inputs(['a', 'b', 'cin'])
    prev, outs = 'cin', []
    for i in range(depth):
        if shape == 'chain':
            c.emplace_gate(f'd{i}', G.NOT if i % 3 else G.XOR, (prev,) if i % 3 else (prev, 'a'))
        elif shape == 'ladder':
            c.emplace_gate(f'd{i}', G.AND if i % 2 else G.XOR, (prev, 'b' if i % 4 < 2 else 'a'))
        else:  # ripple: a carry chain with a sum bit hanging off every stage
            c.emplace_gate(f's{i}', G.XOR, (prev, 'a', 'b'))
            c.emplace_gate(f'd{i}', G.OR, (prev, 'a')) if i % 2 else c.emplace_gate(f'd{i}', G.AND, (prev, 'b'))
            if i % (depth // 3) == 0:
                outs.append(f's{i}')
        prev = f'd{i}'
    c.set_outputs(outs + [prev])
    net = {l: (g.gate_type.name, tuple(g.operands)) for l, g in c.gates.items()}
    bad = []
    for x in itertools.product((False, True), repeat=3):
        assign = dict(zip(c.inputs, x))
        ref = dict(assign)
        for l, (t, ops) in net.items():      # insertion order is topological here
            if t != 'INPUT':
                v = [ref[o] for o in ops]
                ref[l] = {'NOT': lambda v: not v[0], 'XOR': lambda v: sum(v) % 2 == 1, 'AND': lambda v: all(v), 'OR': lambda v: any(v)}[t](v)
        want = [ref[o] for o in c.outputs]
        for name, call in (('evaluate', lambda: list(c.evaluate(list(x)))), ('evaluate_at', lambda: [c.evaluate_at(list(x), i) for i in range(len(c.outputs))]),
                           ('evaluate_circuit_outputs', lambda: [c.evaluate_circuit_outputs(dict(assign))[o] for o in c.outputs]),
                           ('evaluate_circuit', lambda: [c.evaluate_circuit(dict(assign))[o] for o in c.outputs]),
                           ('evaluate_full_circuit', lambda: [c.evaluate_full_circuit(dict(assign))[o] for o in c.outputs])):
            try:
                got = call()
                if [bool(v) for v in got] != want or any(not isinstance(v, bool) for v in got):
                    bad.append((name, x, 'wrong value'))
            except BaseException as e:
                if not isinstance(e, Exception):
                    raise
                bad.append((name, x, type(e).__name__))
        if bad:
            break
    if not bad:
        try:
            tt = c.get_truth_table()
            if len(tt) != len(c.outputs) or any(len(r) != 8 for r in tt):
                bad.append(('get_truth_table', None, 'shape'))
        except Exception as e:
            bad.append(('get_truth_table', None, type(e).__name__))
    return bad
"""
exec(DEEP_SRC)  # noqa: S102


def deep_unit(p, item, tier, seed):
    shape, depth = item
    p.case(("deep", shape, depth), sample=f"{shape} of depth {depth}: every evaluation entry point on all 8 total assignments")
    try:
        bad = deep_problems(shape, depth)  # noqa: F821
    except Exception as e:  # noqa: BLE001
        bad = [("harness", None, f"{type(e).__name__}: {e}")]
    p.queries["sat" if bad else "unsat"] += 1
    if bad:
        p.violation(f"evaluate:{bad[0][0]}:deep-{shape}", f"{shape} of depth {depth}: {bad[:3]}", REPLAY_PRELUDE + DEEP_SRC + f"\nbad=deep_problems({shape!r}, {depth})\nprint(bad[:3]); sys.exit(1 if bad else 0)\n")


def _prod(xs):
    r = 1
    for x in xs:
        r *= x
    return r


def _chunks(lst, n):
    for i in range(0, len(lst), n):
        yield lst[i:i + n]


def run(rep, tier, seed, only=None):
    symeval.install()
    thorough = tier == "thorough"
    max_arity = 6
    rep.functions = [
        "cirbo.core.circuit.operators: and_/or_/xor_/nand_/nor_/nxor_/not_/iff_/gt_/lt_/geq_/leq_/lnot_/rnot_/liff_/riff_/always_*",
        "Circuit.evaluate_full_circuit / evaluate_circuit / evaluate_circuit_outputs / evaluate / evaluate_at / get_truth_table / get_gates_truth_table / top_sort",
        "circuit_search.Operation, _tt_to_gate_type; arithmetics._utils.binary_tt_to_type; subcircuit._PatternOperations.eval_pattern",
    ]
    rep.bounds = {
        "operator arity": "<= 6",
        "systematic family (symbolic gate types)": "<=2 inputs/<=3 gates arities 1-2 (quick); <=3 inputs/<=3 gates arities 0-3 (thorough)",
        "seeded family": "<= 6 inputs, <= 14 gates, arity <= 5",
    }
    rep.outside = ["arities > 6 (fold checked at 2..6, not by induction)", "circuits that are not well formed",
                   "tseytin templates (C05) and converters (C14) are decided in their own checks"]
    rep.rule = ("cases = operator lemmas + table-agreement queries + circuits (systematic topologies with symbolic "
                "gate types, feature circuits, seeded DAGs); distinct by structural hash; non-trivial = has a non-input gate")
    rep.explanation = ("All 2^n inputs and (systematic family) all gate-type labellings are quantified by z3; "
                       "topologies/outputs/labels are enumerated.  unsat = entry point agrees with reference semantics for all values.")
    sub = lambda n: only is None or only in n  # noqa: E731

    if sub("oplemma"):
        items = [(t.name, k) for t in circgen.ALL_TYPES for k in admissible_arities(t, max_arity)]
        rep.pmap(operator_lemmas, items, chunksize=4)
    if sub("tables"):
        rep.pmap(table_agreement, ["circuit_search.Operation", "circuit_search._tt_to_gate_type",
                                   "arithmetics._utils.binary_tt_to_type", "subcircuit._PatternOperations", "subcircuit._get_subcircuits"])
    if sub("feature"):
        rep.pmap(compose_concrete, [("feature", k) for k in range(4)] + [("large", (i, r)) for i in (0, 1) for r in (False, True)])
    if sub("seeded"):
        n_seeds = 64 if thorough else 16
        per = 60 if thorough else 16
        rep.pmap(compose_concrete, [("seeded", (seed * 1000 + s, per, 14 if thorough else 9, 6 if thorough else 5))
                                    for s in range(n_seeds)])
    if sub("deep"):
        rep.pmap(deep_unit, [(sh, d) for sh in ("chain", "ladder", "ripple") for d in ((1500,) if not thorough else (1100, 1500, 4000))])
    if sub("history"):
        rep.pmap(compose_concrete, [("history", seed * 77 + s) for s in range(48 if thorough else 16)])
    if sub("systematic"):
        work = []
        if thorough:
            plan = [(0, 2, (0, 1, 2)), (1, 3, (0, 1, 2, 3)), (2, 3, (0, 1, 2)), (3, 2, (0, 1, 2, 3)), (3, 3, (1, 2))]
        else:
            plan = [(0, 2, (0, 1, 2)), (1, 2, (0, 1, 2, 3)), (2, 2, (0, 1, 2, 3)), (2, 3, (1, 2)), (3, 2, (1, 2))]
        rnd = random.Random(seed)
        for n_in, n_g, ar in plan:
            topos = list(circgen.systematic_topologies(n_in, n_g, ar))
            cap = 12000 if thorough else 1200
            if len(topos) > cap:
                rep.note(f"systematic n_in={n_in} n_gates={n_g}: {len(topos)} topologies, seeded sample of {cap} in quick tier")
                topos = rnd.sample(topos, cap)
            else:
                rep.count("systematic_families_exhaustive")
            for ch in _chunks(topos, 40):
                work.append((n_in, ch))
        rep.pmap(compose_symbolic_types, work)
