"""C19 — local rewrites keep or specialise the function exactly as documented."""
import random

import z3

from vlib import circ, circgen, refsem, symeval
from checks import mutators
from checks.common import REPLAY_PRELUDE

HASH_SEEDS = {"quick": (1,), "thorough": (1, 2, 3)}  # also run (quick size) under these PYTHONHASHSEEDs
LEVEL = "translation_validation"
TECHNIQUE = "translation validation: z3 equivalence of real-evaluator terms before/after rename / replace_inputs (cofactor) / replace_subcircuit, plus reference predicates"
USES_STUBS = True

from cirbo.core.circuit import Circuit, gate as G  # noqa: E402
from cirbo.core.circuit.exceptions import (  # noqa: E402
    CircuitValidationError, CreateBlockError, DeleteBlockError, GateHasUsersError, ReplaceSubcircuitError,
    CircuitGateAlreadyExistsError, CircuitGateIsAbsentError, GateNotInputError, CircuitIsCyclicalError,
)

DOCUMENTED = (CircuitValidationError, CreateBlockError, DeleteBlockError, GateHasUsersError, ReplaceSubcircuitError,
              CircuitGateAlreadyExistsError, CircuitGateIsAbsentError, GateNotInputError, CircuitIsCyclicalError)


def terms_of(c, zs):
    sym = {lab: symeval.SymState(zs[lab], False) for lab in c.inputs}
    return symeval.eval_all_gates(c, sym)


def head(c0):
    return REPLAY_PRELUDE + circ.circ_src(c0) + "\nimport itertools\nfrom checks import mutators\n" + circ.circ_src(c0, "o") + "\n"


def check_rename(p, name, c0, old, new):
    c = mutators.rebuild(c0)
    try:
        c.rename_gate(old, new)
    except DOCUMENTED:
        p.count("rejected")
        return
    p.case(("rename", circ.snapshot(c0), old, new), sample=f"rename {old}->{new} in {name}: {circ.describe(c0)}")
    m = lambda l: new if l == old else l  # noqa: E731
    probs = list(circ.wf_problems(c))
    exp_net = {m(l): (t, tuple(m(o) for o in ops)) for l, (t, ops) in circ.netlist_of(c0).items()}
    if circ.netlist_of(c) != exp_net:
        probs.append("netlist is not the renamed netlist")
    if list(c.inputs) != [m(i) for i in c0.inputs] or list(c.outputs) != [m(o) for o in c0.outputs]:
        probs.append("inputs/outputs not renamed consistently")
    for bn, b in c0.blocks.items():
        nb = c.blocks.get(bn)
        if nb is None or [m(x) for x in b.gates] != list(nb.gates) or [m(x) for x in b.inputs] != list(nb.inputs) or [m(x) for x in b.outputs] != list(nb.outputs):
            probs.append(f"block {bn} not renamed consistently")
    if old in c._gate_to_users:
        probs.append("users index keeps the old label")
    if not probs:
        zs = {lab: z3.Bool(f"x{i}") for i, lab in enumerate(c0.inputs)}
        ta = terms_of(c0, zs)
        tb = terms_of(c, {m(k): v for k, v in zs.items()})
        r, mod = p.check([z3.Or(*[symeval.states_differ(ta[l], tb[m(l)]) for l in c0.gates])] if c0.gates else [z3.BoolVal(False)], label="rename")
        if r == "sat":
            probs.append("a truth table changed")
    if probs:
        p.violation(f"rename:{probs[0].split(' ')[0]}:{c0.gates[old].gate_type.name if old in c0.gates else '?'}",
                    f"rename_gate({old!r},{new!r}) on {circ.describe(c0)}: {probs[:3]}",
                    head(c0) + f"c.rename_gate({old!r},{new!r})\nm=lambda l: {new!r} if l=={old!r} else l\nbad=circ.wf_problems(c)\n"
                    "exp={m(l):(t,tuple(m(x) for x in ops)) for l,(t,ops) in circ.netlist_of(o).items()}\n"
                    "if circ.netlist_of(c)!=exp: bad.append('netlist')\n"
                    "if list(c.inputs)!=[m(i) for i in o.inputs] or list(c.outputs)!=[m(x) for x in o.outputs]: bad.append('interface')\n"
                    "for bn,b in o.blocks.items():\n"
                    "    nb=c.blocks[bn]\n"
                    "    if [m(x) for x in b.gates]!=list(nb.gates) or [m(x) for x in b.inputs]!=list(nb.inputs) or [m(x) for x in b.outputs]!=list(nb.outputs): bad.append('block')\n"
                    "print(bad); sys.exit(1 if bad else 0)\n")


def check_replace_inputs(p, name, c0, to_true, to_false, live=False):
    """live: the lists handed over are the circuit's own `inputs` list object when they name all inputs (the
    property returns the list itself, so `c.replace_inputs(c.inputs, [])` is what a caller writes)."""
    c = mutators.rebuild(c0)
    try:
        t = c.inputs if live and list(to_true) == list(c.inputs) else list(to_true)
        f = c.inputs if live and list(to_false) == list(c.inputs) else list(to_false)
        c.replace_inputs(t, f)
    except DOCUMENTED:
        p.count("rejected")
        return
    p.case(("replace_inputs", circ.snapshot(c0), tuple(to_true), tuple(to_false)),
           sample=f"replace_inputs({to_true},{to_false}) in {name}: {circ.describe(c0)}")
    fixed = set(to_true) | set(to_false)
    probs = list(circ.wf_problems(c))
    if list(c.inputs) != [i for i in c0.inputs if i not in fixed]:
        probs.append(f"remaining inputs {list(c.inputs)} are not the original order minus the fixed ones")
    if list(c.outputs) != list(c0.outputs):
        probs.append("outputs changed")
    if not probs:
        zs = {lab: z3.Bool(f"x{i}") for i, lab in enumerate(c0.inputs)}
        ta = terms_of(c0, zs)
        tb = terms_of(c, zs)
        cof = [zs[i] == (i in to_true) for i in fixed]
        r, mod = p.check(cof + [z3.Or(*[symeval.states_differ(ta[l], tb[l]) for l in c0.gates if l not in fixed or True])], label="cofactor")
        if r == "sat":
            probs.append("result is not the cofactor")
    if probs:
        p.violation(f"replace_inputs:{probs[0].split(' ')[0]}{':own-list' if live else ''}", f"replace_inputs({to_true},{to_false}){' (the circuit own inputs list passed)' if live else ''} on {circ.describe(c0)}: {probs[:3]}",
                    head(c0) + f"T={list(to_true)!r}; F={list(to_false)!r}\nlive={live!r}\n"
                    "c.replace_inputs(c.inputs if live and T==list(c.inputs) else list(T), c.inputs if live and F==list(c.inputs) else list(F))\nbad=circ.wf_problems(c)\n"
                    "if list(c.inputs)!=[i for i in o.inputs if i not in T+F]: bad.append('inputs')\n"
                    "if not bad:\n"
                    "    for x in itertools.product((False,True), repeat=len(c.inputs)):\n"
                    "        a=dict(zip(c.inputs,x)); full=dict(a); full.update({i:True for i in T}); full.update({i:False for i in F})\n"
                    "        ea=ref_concrete(circ.netlist_of(o), full); eb=ref_concrete(circ.netlist_of(c), a)\n"
                    "        if [ea[k] for k in o.outputs]!=[eb[k] for k in c.outputs]: bad.append(('cofactor',a)); break\n"
                    "print(bad); sys.exit(1 if bad else 0)\n")


def check_remove(p, name, c0, lab):
    c = mutators.rebuild(c0)
    has_users = any(lab in g.operands for g in c0.gates.values())
    try:
        c.remove_gate(lab)
        removed = True
    except GateHasUsersError:
        removed = False
    except DOCUMENTED:
        p.count("rejected")
        return
    p.case(("remove", circ.snapshot(c0), lab), sample=f"remove_gate({lab}) in {name}")
    probs = []
    if removed and has_users:
        probs.append("a gate with users was removed")
    if not removed and not has_users:
        probs.append("a gate nobody uses could not be removed")
    if removed:
        if lab in c.gates or lab in c.outputs or lab in c.inputs:
            probs.append("removed gate is still referenced by gates/outputs/inputs")
        probs += circ.wf_problems(c)
        if {l: v for l, v in circ.netlist_of(c0).items() if l != lab} != circ.netlist_of(c):
            probs.append("other gates changed")
        if [o for o in c0.outputs if o != lab] != list(c.outputs):
            probs.append("other outputs changed")
    elif circ.snapshot(c) != circ.snapshot(c0):
        probs.append("refused removal modified the circuit")
    if probs:
        p.violation(f"remove_gate:{probs[0].split(' ')[0]}", f"remove_gate({lab!r}) on {circ.describe(c0)}: {probs[:3]}",
                    head(c0) + f"lab={lab!r}\nhas_users=any(lab in g.operands for g in o.gates.values())\n"
                    "from cirbo.core.circuit.exceptions import GateHasUsersError\n"
                    "try:\n    c.remove_gate(lab); removed=True\nexcept GateHasUsersError:\n    removed=False\n"
                    "bad=[]\nif removed==has_users: bad.append('removal/users mismatch')\n"
                    "if removed: bad+=circ.wf_problems(c); bad+=(['still referenced'] if lab in c.gates or lab in c.outputs else [])\n"
                    "print(bad); sys.exit(1 if bad else 0)\n")


def check_replace_subcircuit(p, name, c0, call, flavour):
    c = mutators.rebuild(c0)
    sub = mutators.other_circuit(call["sub_spec"])
    sub_before = circ.snapshot(sub)
    try:
        c.replace_subcircuit(sub, dict(call["inputs_mapping"]), dict(call["outputs_mapping"]))
    except DOCUMENTED:
        p.count("replace_rejected")
        return
    except Exception as e:  # noqa: BLE001
        p.violation(f"replace_subcircuit:raises:{type(e).__name__}", f"replace_subcircuit raised {type(e).__name__}: {e} for {call} on {circ.describe(c0)}",
                    head(c0) + f"call={call!r}\ntry:\n    mutators.apply_call(c, call)\nexcept Exception as e:\n    print(type(e).__name__, e)\n"
                    "    from checks.c19 import DOCUMENTED\n    sys.exit(0 if isinstance(e, DOCUMENTED) else 1)\nsys.exit(0)\n")
        return
    p.case(("replace_subcircuit", circ.snapshot(c0), repr(call)), sample=f"replace_subcircuit[{flavour}] in {name}: {call['inputs_mapping']} -> {call['outputs_mapping']}")
    p.count("replace_ok")
    probs = list(circ.wf_problems(c))
    # renamed interface: inputs/outputs of the whole circuit follow the mappings
    ren = dict(call["inputs_mapping"])
    ren.update(call["outputs_mapping"])
    m = lambda l: ren.get(l, l)  # noqa: E731
    if [m(i) for i in c0.inputs] != list(c.inputs):
        probs.append("circuit inputs changed")
    if [m(o) for o in c0.outputs] != list(c.outputs):
        probs.append("circuit outputs changed")
    if not probs and c0.outputs:
        zs = {lab: z3.Bool(f"x{i}") for i, lab in enumerate(c0.inputs)}
        oa = c0.evaluate_circuit({lab: symeval.SymState(zs[lab], False) for lab in c0.inputs})
        ob = c.evaluate_circuit({m(lab): symeval.SymState(zs[lab], False) for lab in c0.inputs})
        r, mod = p.check([z3.Or(*[symeval.states_differ(oa[a], ob[b]) for a, b in zip(c0.outputs, c.outputs)])], label="replace")
        if r == "sat":
            probs.append("truth table of the whole circuit changed")
    if not probs:
        # the caller still holds the replacement circuit: neither the replacement nor later edits of the host may change it
        if circ.snapshot(sub) != sub_before:
            probs.append("replacement circuit argument was modified")
        else:
            try:
                for lab in list(call["inputs_mapping"].values())[:3] + list(call["outputs_mapping"].values())[:1]:
                    c.rename_gate(lab, "later_" + lab)
            except DOCUMENTED:
                pass
            if circ.snapshot(sub) != sub_before:
                probs.append("replacement circuit the caller still holds changed when gates of the host were renamed afterwards")
        if probs:
            p.violation(f"replace_subcircuit:{flavour}:replacement-aliased", f"{call} on {circ.describe(c0)}: {probs[:3]}",
                        head(c0) + f"call={call!r}\nsub=mutators.other_circuit(call['sub_spec']); before=circ.snapshot(sub)\n"
                        "c.replace_subcircuit(sub, dict(call['inputs_mapping']), dict(call['outputs_mapping']))\nbad=[]\n"
                        "if circ.snapshot(sub)!=before: bad.append('argument modified')\n"
                        "try:\n    for lab in list(call['inputs_mapping'].values())[:3]+list(call['outputs_mapping'].values())[:1]: c.rename_gate(lab, 'later_'+lab)\nexcept Exception as e:\n    print(type(e).__name__)\n"
                        "if circ.snapshot(sub)!=before: bad.append('changed by later renames in the host')\nprint(bad); sys.exit(1 if bad else 0)\n")
            return
    if probs:
        p.violation(f"replace_subcircuit:{flavour}:{probs[0].split(' ')[0]}", f"{call} on {circ.describe(c0)}: {probs[:3]}",
                    head(c0) + f"call={call!r}\nmutators.apply_call(c, call)\nren=dict(call['inputs_mapping']); ren.update(call['outputs_mapping'])\n"
                    "m=lambda l: ren.get(l,l)\nbad=circ.wf_problems(c)\n"
                    "if [m(i) for i in o.inputs]!=list(c.inputs) or [m(x) for x in o.outputs]!=list(c.outputs): bad.append('interface')\n"
                    "if not bad:\n"
                    "    for x in itertools.product((False,True), repeat=len(o.inputs)):\n"
                    "        a=dict(zip(o.inputs,x)); ea=ref_concrete(circ.netlist_of(o),a); eb=ref_concrete(circ.netlist_of(c),{m(k):v for k,v in a.items()})\n"
                    "        if [ea[k] for k in o.outputs]!=[eb[k] for k in c.outputs]: bad.append(('function',a)); break\n"
                    "print(bad); sys.exit(1 if bad else 0)\n")


def equivalent_variants(rnd, call):
    """Replacement sub-circuits that are functionally equivalent to the relabelled copy."""
    yield "copy", call
    # cleaned-up / bench-converted version of the same sub-circuit
    sub = mutators.other_circuit(call["sub_spec"])
    try:
        from cirbo.minimization.simplification import cleanup

        s2 = cleanup(sub)
        if len(s2.outputs) == len(sub.outputs) and list(s2.inputs) == list(sub.inputs):
            om = {k: s2.outputs[list(sub.outputs).index(v)] for k, v in call["outputs_mapping"].items()}
            if len(set(om.values())) == len(om) and not (set(om.values()) & set(call["inputs_mapping"].values())):
                spec = (list(s2.inputs), [(l, g.gate_type.name, list(g.operands)) for g in s2.top_sort(inverse=True) for l in [g.label] if g.gate_type != G.INPUT], list(s2.outputs))
                yield "cleanup", dict(call, sub_spec=spec, outputs_mapping=om)
    except Exception:  # noqa: BLE001
        pass
    s3 = mutators.other_circuit(call["sub_spec"])
    if s3.inputs:
        s3.into_bench()
        spec = (list(s3.inputs), [(g.label, g.gate_type.name, list(g.operands)) for g in s3.top_sort(inverse=True) if g.gate_type != G.INPUT], list(s3.outputs))
        yield "into_bench", dict(call, sub_spec=spec)


def clashing_variants(rnd, c0, call):
    """The replacement reuses, for one of its own gates, the label of a gate of the host (inside or outside the
    replaced region): either a documented error or a correct result, never a silently overwritten host gate."""
    ins, gates, outs = call["sub_spec"]
    host = [l for l in c0.gates if l not in call["inputs_mapping"]]
    internal = [g[0] for g in gates]
    if not host or not internal:
        return
    for _ in range(2):
        victim, new = rnd.choice(internal), rnd.choice(host)
        if new in internal or new in ins:
            continue
        r = lambda l: new if l == victim else l  # noqa: E731
        spec = (list(ins), [(r(l), t, [r(o) for o in ops]) for l, t, ops in gates], [r(o) for o in outs])
        yield "label-clash", dict(call, sub_spec=spec, outputs_mapping={k: r(v) for k, v in call["outputs_mapping"].items()})
    # a gate of the replaced region that outside gates read is *not* declared as an output, and the replacement
    # re-creates it under the very same label (a re-synthesised copy of an extracted slice does that)
    om = call["outputs_mapping"]
    if len(om) >= 2:
        for host_lab in list(om)[:2]:
            sub_lab = om[host_lab]
            if host_lab in ins or any(host_lab == g[0] for g in gates):
                continue
            r2 = lambda l: host_lab if l == sub_lab else l  # noqa: E731
            spec = (list(ins), [(r2(l), t, [r2(o) for o in ops]) for l, t, ops in gates], [r2(o) for o in outs if o != sub_lab])
            if not spec[2]:
                continue
            yield "undeclared-shared-gate-same-label", dict(call, sub_spec=spec, outputs_mapping={k: v for k, v in om.items() if k != host_lab})
    # the replacement carries an input that nothing reads and that the caller left out of the mapping
    yield "unmapped-dangling-input", dict(call, sub_spec=(list(ins) + ["spare_input_of_the_replacement"], list(gates), list(outs)))
    # a gate of the replaced region that is an output of the whole circuit is *not* declared, and the replacement owns
    # an inner gate of that very label computing something else (its declared outputs stay equivalent)
    if len(om) >= 2 and ins:
        for host_lab in [l for l in om if l in c0.outputs][:2]:
            sub_lab = om[host_lab]
            if host_lab in ins or any(host_lab == g[0] for g in gates):
                continue
            for t in ("NOT", "IFF"):
                spec = (list(ins), list(gates) + [(host_lab, t, [ins[0]])], [o for o in outs if o != sub_lab])
                if spec[2]:
                    yield "undeclared-circuit-output-recreated-differently", dict(call, sub_spec=spec, outputs_mapping={k: v for k, v in om.items() if k != host_lab})


def unit(p, item, tier, seed):
    s = item
    rnd = random.Random(s)
    fam = [(n, c) for n, c in circgen.feature_circuits() + circgen.large_circuits(s)[:1]] if s % 16 == 0 else []
    for i in range(20 if tier == "quick" else 50):
        c = circgen.random_circuit(rnd, rnd.randint(1, 4), rnd.randint(1, 8), max_arity=3, n_outputs=rnd.randint(1, 3), shuffle_storage=bool(i % 2))
        circgen.add_random_blocks(c, rnd, 2)
        fam.append((f"seeded[{s}:{i}]", c))
    if s % 16 == 0:
        for name, c0, call in mutators.loop_closing_cases():
            check_replace_subcircuit(p, name, c0, call, "loop-closing")
    for name, c0 in fam:
        labs = list(c0.gates)
        for lab in (labs if len(labs) <= 40 else rnd.sample(labs, 12)):
            check_rename(p, name, c0, lab, "renamed_" + lab)
            check_remove(p, name, c0, lab)
        if labs:
            check_rename(p, name, c0, labs[0], labs[-1])  # clash -> documented error
        ins = list(c0.inputs)
        for _ in range(3):
            rnd.shuffle(ins)
            a = rnd.randint(0, len(ins))
            b = rnd.randint(a, len(ins))
            check_replace_inputs(p, name, c0, ins[:a], ins[a:b])
        check_replace_inputs(p, name, c0, list(c0.inputs), [], live=True)
        check_replace_inputs(p, name, c0, [], list(c0.inputs), live=True)
        for k in range(6 if tier == "quick" else 15):
            call = mutators.random_call(rnd, c0, step=k, kinds=["replace_subcircuit"])
            if call is None:
                continue
            for flavour, cl in list(equivalent_variants(rnd, call)) + list(clashing_variants(rnd, c0, call)):
                check_replace_subcircuit(p, name, c0, cl, flavour)


def canary(p):
    c = circgen.build(["a", "b"], [("g", G.AND, ("a", "b"))], ["g"])
    w = circgen.build(["a", "b"], [("g", G.OR, ("a", "b"))], ["g"])
    zs = {lab: z3.Bool(lab) for lab in c.inputs}
    r, _ = p.check([symeval.states_differ(terms_of(c, zs)["g"], terms_of(w, zs)["g"])], label="canary")
    p.canary(r == "sat")


def run(rep, tier, seed, only=None):
    symeval.install()
    thorough = tier == "thorough"
    rep.functions = ["Circuit.rename_gate, Block._rename_gate", "Circuit.replace_inputs", "Circuit.replace_subcircuit (make_block_from_slice, _remove_block, check_block_has_no_users, check_circuit_has_no_cycles)",
                     "Circuit.remove_gate / _remove_gate"]
    rep.bounds = {"circuits": "feature + seeded <=4 inputs/<=8 gates/<=2 blocks", "rename/remove": "every gate", "replace_inputs": "3 random input partitions each",
                  "replace_subcircuit": "random cut-bounded cones; replacements: relabelled copy, cleanup(copy), into_bench(copy)"}
    rep.outside = ["replacements obtained by exact synthesis (covered in C06/C04 end-to-end)", "non-equivalent replacements (no claim)"]
    rep.bounds['argument shapes'] = 'replace_inputs with the circuit own inputs list; replacement gate labels clashing with host gates; an undeclared shared gate re-created under its own label'
    rep.rule = "program = (circuit, rewrite call); function preservation/specialisation decided by z3 over all inputs"
    rep.explanation = "translation validation per rewrite"
    canary(rep)
    rep.pmap(unit, [seed * 197 + s for s in range(192 if thorough else 64)])
