"""Public mutator calls of Circuit as plain data (shared by C02 / C19 / replays)."""
import copy
import random

from vlib import circgen

from cirbo.core.circuit import Circuit, Gate, gate as G

KINDS = [
    "add_gate", "emplace_gate", "remove_gate", "rename_gate", "mark_as_output", "set_outputs", "set_inputs",
    "order_inputs", "order_outputs", "add_inputs", "replace_inputs", "connect", "replace_subcircuit",
    "make_block", "make_block_from_slice", "delete_block", "remove_block", "into_bench", "copy", "reinsert",
]


def other_circuit(spec):
    """Small attached circuit built from plain data (label prefix avoids clashes unless asked)."""
    inputs, gates, outputs = spec
    return circgen.build(inputs, [(l, getattr(G, t), tuple(o)) for l, t, o in gates], outputs)


def apply_call(c, call):
    """Apply one mutator call; returns the resulting circuit object (c itself except for copy)."""
    k = call["kind"]
    if k == "add_gate":
        c.add_gate(Gate(call["label"], getattr(G, call["type"]), tuple(call["operands"])))
    elif k == "emplace_gate":
        c.emplace_gate(call["label"], getattr(G, call["type"]), tuple(call["operands"]))
    elif k == "remove_gate":
        c.remove_gate(call["label"])
    elif k == "rename_gate":
        c.rename_gate(call["old"], call["new"])
    elif k == "mark_as_output":
        c.mark_as_output(call["label"])
    elif k == "set_outputs":
        c.set_outputs(list(call["labels"]))
    elif k == "set_inputs":
        c.set_inputs(list(call["labels"]))
    elif k == "order_inputs":
        c.order_inputs(list(call["labels"]))
    elif k == "order_outputs":
        c.order_outputs(list(call["labels"]))
    elif k == "add_inputs":
        c.add_inputs(list(call["labels"]))
    elif k == "replace_inputs":
        c.replace_inputs(list(call["true"]), list(call["false"]))
    elif k == "connect":
        o = other_circuit(call["other_spec"])
        kw = dict(name=call["name"], add_prefix=call["add_prefix"])
        how = call["how"]
        if how == "connect_circuit":
            c.connect_circuit(o, call["this"], call["other"], right_connect=call["right"], **kw)
        elif how == "connect_left":
            c.connect_left(o, call["this"], **kw)
        elif how == "connect_right":
            c.connect_right(o, call["other"], **kw)
        elif how == "connect_inputs":
            c.connect_inputs(o, **kw)
        elif how == "extend_circuit":
            c.extend_circuit(o, right_connect=call["right"], **kw)
        else:
            c.add_circuit(o, **kw)
    elif k == "replace_subcircuit":
        c.replace_subcircuit(other_circuit(call["sub_spec"]), dict(call["inputs_mapping"]), dict(call["outputs_mapping"]))
    elif k == "make_block":
        c.make_block(call["name"], list(call["gates"]), list(call["outputs"]), call.get("inputs"))
    elif k == "make_block_from_slice":
        c.make_block_from_slice(call["name"], list(call["inputs"]), list(call["outputs"]))
    elif k == "delete_block":
        c.delete_block(call["name"])
    elif k == "remove_block":
        c.remove_block(call["name"])
    elif k == "reinsert":
        # remove a gate nobody uses and add another gate under the same label (the size stays the same)
        was_output = [i for i, o in enumerate(c.outputs) if o == call["label"]]
        c.remove_gate(call["label"])
        c.add_gate(Gate(call["label"], getattr(G, call["type"]), tuple(call["operands"])))
        outs = list(c.outputs)
        for i in was_output:
            outs.insert(min(i, len(outs)), call["label"])
        c.set_outputs(outs)
    elif k == "into_bench":
        c.into_bench()
    elif k == "copy":
        return copy.copy(c)
    else:
        raise ValueError(k)
    return c


def _small_other(rnd, tag):
    ni, ng = rnd.randint(1, 2), rnd.randint(1, 3)
    labels = [f"{tag}{i}" for i in range(ni + ng)]
    c = circgen.random_circuit(rnd, ni, ng, max_arity=2, labels=labels, n_outputs=rnd.randint(1, 2))
    spec = (list(c.inputs), [(l, g.gate_type.name, list(g.operands)) for l, g in c.gates.items() if g.gate_type != G.INPUT], list(c.outputs))
    return c, spec


def random_call(rnd, c, step=0, kinds=None):
    """A mutator call with arguments that are valid per the docstrings most of the time."""
    labs = list(c.gates)
    k = rnd.choice(kinds or KINDS)
    fresh = f"n{step}_{rnd.randrange(1000)}"
    if k in ("add_gate", "emplace_gate"):
        ar = rnd.choice([0, 1, 2, 2, 3])
        if ar > 0 and not labs:
            ar = 0
        if rnd.random() < 0.1:
            return dict(kind=k, label=fresh, type="INPUT", operands=[])
        t = rnd.choice(circgen.types_for_arity(ar))
        return dict(kind=k, label=fresh, type=t.name, operands=[rnd.choice(labs) for _ in range(ar)])
    if k == "remove_gate":
        return dict(kind=k, label=rnd.choice(labs)) if labs else None
    if k == "rename_gate":
        return dict(kind=k, old=rnd.choice(labs), new=fresh) if labs else None
    if k == "mark_as_output":
        return dict(kind=k, label=rnd.choice(labs)) if labs else None
    if k == "set_outputs":
        return dict(kind=k, labels=[rnd.choice(labs) for _ in range(rnd.randint(0, 3))] if labs else [])
    if k == "set_inputs":
        p = list(c.inputs)
        rnd.shuffle(p)
        return dict(kind=k, labels=p)
    if k == "order_inputs":
        labels = rnd.sample(list(c.inputs), rnd.randint(0, len(c.inputs)))
        if labels and rnd.random() < 0.25:
            labels.insert(rnd.randrange(len(labels) + 1), rnd.choice(labels))  # a label asked for twice: documented error, or a valid order
        return dict(kind=k, labels=labels)
    if k == "order_outputs":
        outs = list(c.outputs)
        labels = rnd.sample(outs, rnd.randint(0, len(outs)))
        if labels and rnd.random() < 0.25:
            labels.insert(rnd.randrange(len(labels) + 1), rnd.choice(labels))
        return dict(kind=k, labels=labels)
    if k == "add_inputs":
        return dict(kind=k, labels=[f"{fresh}_{i}" for i in range(rnd.randint(0, 2))])
    if k == "replace_inputs":
        ins = list(c.inputs)
        rnd.shuffle(ins)
        a = rnd.randint(0, len(ins))
        b = rnd.randint(a, len(ins))
        return dict(kind=k, true=ins[:a], false=ins[a:b])
    if k == "connect":
        o, spec = _small_other(rnd, f"o{step}_")
        how = rnd.choice(["connect_circuit", "connect_circuit", "connect_left", "connect_right", "connect_inputs", "extend_circuit", "add_circuit"])
        call = dict(kind=k, how=how, other_spec=spec, name=rnd.choice(["", f"B{step}"]), add_prefix=rnd.choice([True, False]),
                    right=rnd.random() < 0.5, this=[], other=[])
        if how == "connect_circuit":
            if call["right"]:
                n = rnd.randint(0, min(len(c.inputs), len(o.gates)))
                call["this"] = rnd.sample(list(c.inputs), n)
                call["other"] = rnd.sample(list(o.gates), n)
            else:
                n = rnd.randint(0, len(o.inputs)) if labs else 0
                call["other"] = rnd.sample(list(o.inputs), n)
                call["this"] = [rnd.choice(labs) for _ in range(n)]
        elif how == "connect_left":
            if not labs:
                return None
            call["this"] = [rnd.choice(labs) for _ in o.inputs]
        elif how == "connect_right":
            if len(o.gates) < len(c.inputs):
                return None
            call["other"] = rnd.sample(list(o.gates), len(c.inputs))
        return call
    if k == "replace_subcircuit":
        # pick a cone: outputs = one non-input gate, inputs = a cut of its cone
        nonin = [l for l in labs if c.gates[l].gate_type != G.INPUT and c.gates[l].operands]
        if not nonin:
            return None
        roots = rnd.sample(nonin, min(len(nonin), rnd.choice([1, 1, 2])))
        cut, members, stack = [], [], list(roots)
        seen = set()
        while stack:
            l = stack.pop()
            if l in seen:
                continue
            seen.add(l)
            g = c.gates[l]
            if l not in roots and (g.gate_type == G.INPUT or not g.operands or rnd.random() < 0.4):
                cut.append(l)
            else:
                members.append(l)
                stack.extend(g.operands)
        cut = [l for l in cut if l not in members]
        if not cut:
            return None
        mset = set(members)
        # every member that is visible from outside the cone (an outer user, or a circuit output) must be
        # mapped as an output of the replacement -- this includes members that also feed other members
        outs = [m for m in members if m in roots or m in c.outputs
                or any(m in c.gates[u].operands for u in c.gates if u not in mset)]
        # replacement: relabelled copy of the members
        ren = {l: f"r{step}_{i}" for i, l in enumerate(members)}
        subin = {l: f"ri{step}_{i}" for i, l in enumerate(cut)}
        gates = [(ren[l], c.gates[l].gate_type.name, [ren.get(o, subin.get(o)) for o in c.gates[l].operands]) for l in reversed(members)]
        if any(None in g[2] for g in gates):
            return None
        sub_spec = ([subin[l] for l in cut], _toposort(gates, set(subin.values())), [ren[o] for o in outs])
        return dict(kind=k, sub_spec=sub_spec, inputs_mapping={l: subin[l] for l in cut}, outputs_mapping={o: ren[o] for o in outs})
    if k == "make_block":
        if not labs:
            return None
        gs = rnd.sample(labs, rnd.randint(1, len(labs)))
        return dict(kind=k, name=f"mb{step}_{rnd.randrange(100)}", gates=gs, outputs=rnd.sample(gs, rnd.randint(0, min(2, len(gs)))),
                    inputs=None if rnd.random() < 0.5 else rnd.sample(labs, rnd.randint(0, min(2, len(labs)))))
    if k == "make_block_from_slice":
        if not labs:
            return None
        return dict(kind=k, name=f"sl{step}_{rnd.randrange(100)}", inputs=rnd.sample(labs, rnd.randint(0, min(3, len(labs)))),
                    outputs=rnd.sample(labs, rnd.randint(1, min(2, len(labs)))))
    if k == "reinsert":
        free = [l for l in labs if c.gates[l].gate_type != G.INPUT and c.gates[l].operands and not any(l in g.operands for g in c.gates.values())]
        if not free:
            return None
        l = rnd.choice(free)
        ar = len(c.gates[l].operands)
        others = [t for t in circgen.types_for_arity(ar) if t != c.gates[l].gate_type]
        if not others:
            return None
        return dict(kind=k, label=l, type=rnd.choice(others).name, operands=list(c.gates[l].operands))
    if k in ("delete_block", "remove_block"):
        if not c.blocks:
            return None
        return dict(kind=k, name=rnd.choice(list(c.blocks)))
    return dict(kind=k)


def corrupt_call(call, c, rnd):
    """A call the circuit must reject (a label that does not exist, a label that is taken, ...)."""
    call = dict(call)
    k = call["kind"]
    labs = list(c.gates)
    # a label nobody has: an ordinary one, or the empty string (which is falsy)
    missing = rnd.choice(["missing_gate", ""])
    if k in ("add_gate", "emplace_gate") and call.get("operands"):
        ops = list(call["operands"])
        ops[rnd.randrange(len(ops))] = missing
        call["operands"] = ops
        if rnd.random() < 0.3 and labs:
            call["label"] = rnd.choice(labs)
    elif k == "rename_gate":
        if rnd.random() < 0.5 and labs:
            call["new"] = rnd.choice(labs)
        else:
            call["old"] = missing
    elif k in ("remove_gate", "mark_as_output"):
        call["label"] = missing
    elif k in ("set_outputs", "order_outputs", "order_inputs", "set_inputs"):
        non_inputs = [l for l in labs if c.gates[l].gate_type != G.INPUT]
        if k in ("set_inputs", "order_inputs") and non_inputs and rnd.random() < 0.5:
            call["labels"] = list(call["labels"]) + [rnd.choice(non_inputs)]  # a gate that exists but is no input
        else:
            call["labels"] = list(call["labels"]) + [missing]
    elif k == "add_inputs" and labs:
        call["labels"] = list(call["labels"]) + [rnd.choice(labs)]
    elif k == "replace_inputs" and labs:
        call["true"] = list(call["true"]) + [rnd.choice(labs)]
    elif k == "connect" and (call["this"] or call["other"]):
        key = "this" if call["this"] else "other"
        t = list(call[key])
        t[-1] = missing
        call[key] = t
    elif k == "replace_subcircuit" and call["outputs_mapping"]:
        om = dict(call["outputs_mapping"])
        kk = list(om)[-1]
        om[missing] = om.pop(kk)
        call["outputs_mapping"] = om
    elif k == "make_block":
        call["gates"] = list(call["gates"]) + [missing]
    elif k == "make_block_from_slice":
        call["outputs"] = list(call["outputs"]) + [missing]
    elif k in ("delete_block", "remove_block"):
        call["name"] = "missing_block"
    else:
        return None
    return call


def _toposort(gates, known):
    out, pending = [], list(gates)
    known = set(known)
    while pending:
        progressed = False
        rest = []
        for g in pending:
            if all(o in known for o in g[2]):
                out.append(g)
                known.add(g[0])
                progressed = True
            else:
                rest.append(g)
        pending = rest
        if not progressed:
            out += pending
            break
    return out


def rebuild(c):
    r = Circuit()
    for lab, g in c._gates.items():
        r._emplace_gate(lab, g.gate_type, tuple(g.operands))
    r.set_inputs(list(c._inputs))
    r.set_outputs(list(c._outputs))
    for name, b in c._blocks.items():
        r.make_block(name, list(b.gates), list(b.outputs), list(b.inputs))
    return r


def loop_closing_cases():
    """(name, pre-state, replace_subcircuit call) where the replacement closes a loop through a gate downstream of
    the replaced region.  The call has to raise a documented error; a normal return leaves a cyclic circuit.  The
    loops are reachable from the outputs but, on purpose, not always from an INPUT gate: the leaves they hang off
    are inputs that lose their last user, constants, or inputs fixed earlier by replace_inputs."""
    out = []
    for depth in (0, 1, 3):
        for second in ("NOT", "AND2"):
            gates = [("g1", G.NOT, ("i",)), ("g2", G.NOT, ("g1",)) if second == "NOT" else ("g2", G.AND, ("g1", "g1"))]
            prev = "g2"
            for d in range(depth):
                gates.append((f"t{d}", G.NOT, (prev,)))
                prev = f"t{d}"
            gates += [("side", G.AND, ("j", "k")), ("top", G.OR, (prev, "side"))]
            c = circgen.build(["i", "j", "k"], gates, ["top"])
            for sub_gate, tag in ((("so", "NOT", ["s2"]), "ignores-its-other-input"), (("so", "AND", ["s1", "s2"]), "reads-both")):
                out.append((f"loop[{depth},{second},{tag}]", c,
                            dict(kind="replace_subcircuit", sub_spec=(["s1", "s2"], [sub_gate], ["so"]),
                                 inputs_mapping={"i": "s1", "g2": "s2"}, outputs_mapping={"g1": "so"})))
    # the slice is not convex: its input m depends on its output s1; S1 = (NOT(B) ^ M) ^ M reads M structurally
    for fixed in (None, True, False, "constant-gate"):
        gates = [("s1", G.NOT, ("b",)), ("m", G.NOT, ("s1",)), ("s2", G.AND, ("m", "b")), ("o", G.AND, ("a", "s2"))]
        if fixed == "constant-gate":
            c = circgen.build(["a"], [("b", G.ALWAYS_TRUE, ())] + gates, ["o"])
        else:
            c = circgen.build(["a", "b"], gates, ["o"])
            if fixed is not None:
                c.replace_inputs(["b"] if fixed else [], [] if fixed else ["b"])
        sub = (["B", "M"], [("N", "NOT", ["B"]), ("X1", "XOR", ["N", "M"]), ("S1", "XOR", ["X1", "M"]), ("S2", "AND", ["M", "B"])], ["S1", "S2"])
        out.append((f"loop[non-convex,b={fixed}]", c,
                    dict(kind="replace_subcircuit", sub_spec=sub, inputs_mapping={"b": "B", "m": "M"}, outputs_mapping={"s1": "S1", "s2": "S2"})))
    return out
