"""C09 — subtraction, division, sqrt, comparison and gadget generators are exact."""
import math
import random

import z3

from vlib import circ, symeval
from checks import gencommon
from checks.common import REPLAY_PRELUDE

LEVEL = "other"
TECHNIQUE = "bounded SMT: real generator output (real evaluator terms, cut-point operands) vs bit-vector specifications (sub/borrow, udiv/urem, isqrt bounds, equality, +1, ite, xor) decided by z3"
USES_STUBS = True

from cirbo.synthesis.generation import arithmetics as A  # noqa: E402
from cirbo.synthesis import generation as GEN  # noqa: E402


def le(labels, be):
    labels = list(labels)
    return labels[::-1] if be else labels


def invoke(case, c, operands):
    """Returns dict: name -> list of labels in *little-endian* order (or single-label lists)."""
    if case.get("live_outputs"):
        # the first operand list *is* the circuit's own outputs list (what `c.outputs` hands out); with add_outputs
        # it grows while the gadget is built, which is the circuit's doing, so the no-modification guard does not apply
        return _invoke(case, c, [c.outputs] + [list(o) for o in operands[1:]])
    gencommon.elsewhere_first(case, _invoke)
    guard = gencommon.OperandLists(operands, alias=case.get("alias", False))
    try:
        return _invoke(case, c, guard.lists)
    finally:
        guard.check()


def _invoke(case, c, operands):
    fn = case["fn"]
    be = case.get("big_endian", False)
    if fn in ("add_sub_two_numbers", "add_subtract_with_compare", "add_sub2", "add_sub3", "add_div_mod", "add_sqrt", "add_equal") \
            and gencommon.one_shot(case) and not case.get("alias") and not case.get("live_outputs"):
        operands = [iter(list(o)) for o in operands]
    if fn == "add_sub_two_numbers":
        return {"res": le(A.add_sub_two_numbers(c, operands[0], operands[1], big_endian=be), be)}
    if fn == "add_subtract_with_compare":
        res, bal = A.add_subtract_with_compare(c, operands[0], operands[1], big_endian=be)
        return {"res": le(res, be), "borrow": [bal]}
    if fn == "add_sub2":
        r = A.add_sub2(c, operands[0], big_endian=be)
        return {"res": [r[0]], "borrow": [r[1]]}
    if fn == "add_sub3":
        r = A.add_sub3(c, operands[0], big_endian=be)
        return {"res": [r[0]], "borrow": [r[1]]}
    if fn == "add_div_mod":
        d, m = A.add_div_mod(c, operands[0], operands[1], big_endian=be)
        return {"div": le(d, be), "mod": le(m, be)}
    if fn == "add_sqrt":
        return {"res": le(A.add_sqrt(c, operands[0], big_endian=be), be)}
    if fn == "add_equal":
        return {"res": [A.add_equal(c, operands[0], case["num"])]}
    if fn == "add_plus_one":
        kw = {}
        if case.get("out_len") is not None:
            kw["result_labels"] = [f"z_{i}" for i in range(case["out_len"])]
            if case.get("named") == "odd" and kw["result_labels"]:
                kw["result_labels"][0] = ""
        r = GEN.add_plus_one(c, operands[0], add_outputs=case.get("add_outputs", False), big_endian=be, **kw)
        if "result_labels" in kw and list(r) != kw["result_labels"]:
            raise AssertionError(f"returned result labels {list(r)!r} are not the requested ones {kw['result_labels']!r}")
        return {"res": le(r, be)}
    # named == "odd": requested result labels that are legal gate labels but falsy or unusual ('' , '0', ' ')
    odd = case.get("named") == "odd"

    def honoured(got, asked):
        if list(got) != list(asked):
            raise AssertionError(f"returned result labels {list(got)!r} are not the requested ones {list(asked)!r}")

    if fn == "add_if_then_else":
        kw = {"result_label": "" if odd else "ite_res"} if case.get("named") else {}
        r = GEN.add_if_then_else(c, operands[0][0], operands[0][1], operands[0][2], add_outputs=case.get("add_outputs", False), **kw)
        if kw:
            honoured([r], [kw["result_label"]])
        return {"res": [r]}
    if fn == "add_pairwise_if_then_else":
        n = case["n"]
        kw = {"result_labels": [f"ite_{i}" for i in range(n)]} if case.get("named") else {}
        if odd:
            kw["result_labels"][-1] = ""
            kw["result_labels"][0] = "0" if n > 1 else ""
        r = GEN.add_pairwise_if_then_else(c, operands[0], operands[1], operands[2], add_outputs=case.get("add_outputs", False), **kw)
        if kw:
            honoured(r, kw["result_labels"])
        return {"res": list(r)}
    if fn == "add_pairwise_xor":
        n = case["n"]
        kw = {"result_labels": [f"xr_{i}" for i in range(n)]} if case.get("named") else {}
        if odd:
            kw["result_labels"][0] = ""
            if n > 1:
                kw["result_labels"][-1] = " "
        r = GEN.add_pairwise_xor(c, operands[0], operands[1], add_outputs=case.get("add_outputs", False), **kw)
        if kw:
            honoured(r, kw["result_labels"])
        return {"res": list(r)}
    raise ValueError(fn)


def spec_int(case, vals):
    """Reference results on Python ints. vals: list of operand bit lists (little-endian bools).
    Returns dict name -> int or list[bool] (pointwise)."""
    fn = case["fn"]
    num = lambda bits: sum(int(b) << i for i, b in enumerate(bits))  # noqa: E731
    if fn == "add_sub_two_numbers":
        a, b = num(vals[0]), num(vals[1])
        return {"res": (a - b) % (1 << len(vals[0]))}
    if fn == "add_subtract_with_compare":
        a, b = num(vals[0]), num(vals[1])
        n = max(len(vals[0]), len(vals[1]))
        return {"res": (a - b) % (1 << n), "borrow": int(a < b)}
    if fn == "add_sub2":
        a, b = int(vals[0][0]), int(vals[0][1])
        return {"res": (a - b) % 2, "borrow": int(a < b)}
    if fn == "add_sub3":
        a, b, bal = int(vals[0][0]), int(vals[0][1]), int(vals[0][2])
        return {"res": (a - b - bal) % 2, "borrow": int(a - b - bal < 0)}
    if fn == "add_div_mod":
        a, b = num(vals[0]), num(vals[1])
        return {"div": a // b if b else 0, "mod": a % b if b else 0}
    if fn == "add_sqrt":
        return {"res": math.isqrt(num(vals[0]))}
    if fn == "add_equal":
        return {"res": int(num(vals[0]) == case["num"] and case["num"] < (1 << len(vals[0])))}
    if fn == "add_plus_one":
        out_len = case["out_len"] if case.get("out_len") is not None else len(vals[0]) + 1
        return {"res": (num(vals[0]) + 1) % (1 << out_len)}
    if fn == "add_if_then_else":
        i, t, e = vals[0]
        return {"res": int(t if i else e)}
    if fn == "add_pairwise_if_then_else":
        return {"res": sum(int(t if i else e) << k for k, (i, t, e) in enumerate(zip(*vals)))}
    if fn == "add_pairwise_xor":
        return {"res": sum(int(x != y) << k for k, (x, y) in enumerate(zip(*vals)))}
    raise ValueError(fn)


def spec_z3(case, ops_bits, outs):
    """List of z3 violation terms.  ops_bits: operand z3 Bool lists (little-endian); outs: name -> Bool list."""
    fn = case["fn"]
    bv = gencommon.bv
    if fn in ("add_sub_two_numbers", "add_subtract_with_compare"):
        n = len(outs["res"])
        W = max(len(ops_bits[0]), len(ops_bits[1]), n) + 1
        a, b = bv(ops_bits[0], W), bv(ops_bits[1], W)
        bad = [z3.Extract(n - 1, 0, a - b) != bv(outs["res"], n)]
        if "borrow" in outs:
            bad.append(outs["borrow"][0] != z3.ULT(a, b))
        return bad
    if fn == "add_sub2":
        a, b = ops_bits[0]
        return [outs["res"][0] != z3.Xor(a, b), outs["borrow"][0] != z3.And(z3.Not(a), b)]
    if fn == "add_sub3":
        a, b, bal = [z3.ZeroExt(2, bv([x], 1)) for x in ops_bits[0]]
        d = a - b - bal
        return [outs["res"][0] != (z3.Extract(0, 0, d) == 1), outs["borrow"][0] != (z3.Extract(2, 2, d) == 1)]
    if fn == "add_div_mod":
        n = len(ops_bits[0])
        a, b = bv(ops_bits[0], n), bv(ops_bits[1], n)
        zero = z3.BitVecVal(0, n)
        return [bv(outs["div"], n) != z3.If(b == 0, zero, z3.UDiv(a, b)), bv(outs["mod"], n) != z3.If(b == 0, zero, z3.URem(a, b))]
    if fn == "add_sqrt":
        n = len(ops_bits[0])
        W = n + 4
        a, q = bv(ops_bits[0], W), bv(outs["res"], W)
        return [z3.Not(z3.And(z3.ULE(q * q, a), z3.ULT(a, (q + 1) * (q + 1))))]
    if fn == "add_equal":
        n = len(ops_bits[0])
        if case["num"] >= (1 << n):
            return [outs["res"][0]]
        return [outs["res"][0] != (bv(ops_bits[0], n) == z3.BitVecVal(case["num"], n))]
    if fn == "add_plus_one":
        o = len(outs["res"])
        W = max(o, len(ops_bits[0])) + 1
        return [z3.Extract(o - 1, 0, bv(ops_bits[0], W) + 1) != bv(outs["res"], o)]
    if fn == "add_if_then_else":
        i, t, e = ops_bits[0]
        return [outs["res"][0] != z3.If(i, t, e)]
    if fn == "add_pairwise_if_then_else":
        return [outs["res"][k] != z3.If(i, t, e) for k, (i, t, e) in enumerate(zip(*ops_bits))]
    if fn == "add_pairwise_xor":
        return [outs["res"][k] != z3.Xor(x, y) for k, (x, y) in enumerate(zip(*ops_bits))]
    raise ValueError(fn)


def expected_lengths(case):
    w = case["widths"]
    fn = case["fn"]
    if fn == "add_sub_two_numbers":
        return {"res": w[0]}
    if fn == "add_subtract_with_compare":
        return {"res": max(w), "borrow": 1}
    if fn == "add_div_mod":
        return {"div": w[0], "mod": w[0]}
    if fn == "add_sqrt":
        return {"res": (w[0] + 1) // 2}
    if fn == "add_plus_one":
        return {"res": case["out_len"] if case.get("out_len") is not None else w[0] + 1}
    if fn in ("add_pairwise_if_then_else", "add_pairwise_xor"):
        return {"res": case["n"]}
    return {}


def key_of(case):
    k = [case["fn"]]
    if case.get("big_endian"):
        k.append("BE")
    if case["fn"] == "add_subtract_with_compare":
        k.append("equal-widths" if case["widths"][0] == case["widths"][1] else "unequal-widths")
    if "add_outputs" in case:
        k.append("add_outputs" if case["add_outputs"] else "no-outputs")
    if case["fn"] == "add_plus_one":
        k.append(case.get("host", "fresh"))
    return ":".join(k)


def replay_src(case, host, assign):
    return (REPLAY_PRELUDE + host.before_src + "\nfrom checks import c09\nfrom checks.gencommon import concrete_values\n"
            f"case={case!r}\noperands={host.operands!r}\nassign={assign!r}\nbefore=circ.netlist_of(c)\nouts_before=list(c.outputs)\nbad=[]\n"
            "try:\n    outs=c09.invoke(case, c, operands)\nexcept Exception as e:\n    print('raised', type(e).__name__, e); sys.exit(1)\n"
            "after=circ.netlist_of(c)\n"
            "if any(after.get(k)!=v for k,v in before.items()): bad.append('pre-existing gate changed')\n"
            "bad+=circ.wf_problems(c)\n"
            "labs=[l for v in outs.values() for l in v]\n"
            "if case.get('add_outputs'):\n"
            "    if sorted(c.outputs)!=sorted(outs_before+labs): bad.append(('outputs', list(c.outputs)))\n"
            "elif list(c.outputs)!=outs_before: bad.append(('outputs changed without add_outputs', list(c.outputs)))\n"
            "for k,n in c09.expected_lengths(case).items():\n"
            "    if len(outs[k])!=n: bad.append(('length',k,len(outs[k]),n))\n"
            "if not bad:\n"
            "    allv=concrete_values(c, assign, list(dict.fromkeys([x for ops in operands for x in ops]+labs)))\n"
            "    vals=[[bool(allv[x]) for x in c09.le(ops, case.get('big_endian', False))] for ops in operands]\n"
            "    if case['fn'] in ('add_if_then_else','add_pairwise_if_then_else','add_pairwise_xor','add_sub2','add_sub3','add_equal'): vals=[[bool(allv[x]) for x in ops] for ops in operands]\n"
            "    exp=c09.spec_int(case, vals)\n"
            "    for k,v in exp.items():\n"
            "        got=sum(int(bool(allv[l]))<<i for i,l in enumerate(outs[k]))\n"
            "        if got!=v: bad.append((k,got,v,vals))\n"
            "print(bad)\nsys.exit(1 if bad else 0)\n")


POINTWISE = ("add_if_then_else", "add_pairwise_if_then_else", "add_pairwise_xor", "add_sub2", "add_sub3", "add_equal")


def check_case(p, case, rnd, timeout_ms=240000):
    host = gencommon.Host(case.get("host", "fresh"), case["widths"], rnd)
    if case.get("same_then_else"):
        if case["fn"] == "add_if_then_else":
            host.operands[0][2] = host.operands[0][1]
        else:
            host.operands[2] = list(host.operands[1])
    if case.get("live_outputs"):
        host.c.set_outputs(list(host.operands[0]))
        host.refresh()
    be = case.get("big_endian", False)
    desc = f"{case} in {host.before_desc}"
    p.case(("c09", repr(sorted(case.items()))), sample=desc if len(p.samples) < 3 else None)
    outs_before = list(host.c.outputs)
    try:
        outs = invoke(case, host.c, host.operands)
    except Exception as e:  # noqa: BLE001
        p.violation(f"gen:{key_of(case)}:raises:{type(e).__name__}", f"{desc} raised {type(e).__name__}: {e}", replay_src(case, host, {}))
        return
    labs = [l for v in outs.values() for l in v]
    probs, new = host.structural_problems(labs, allow_input_order_change=(case["fn"] == "add_plus_one"))
    if case.get("add_outputs"):
        if sorted(host.c.outputs) != sorted(outs_before + labs):
            probs.append(f"outputs are {list(host.c.outputs)}; expected the old outputs plus the results")
    elif list(host.c.outputs) != outs_before:
        probs.append(f"outputs changed although add_outputs was not requested: {list(host.c.outputs)}")
    for k, n in expected_lengths(case).items():
        if len(outs[k]) != n:
            probs.append(f"{k} has {len(outs[k])} bits, documented {n}")
    assign = {}
    if not probs:
        zs = host.cut_assignment()
        terms = {k: host.terms(v, zs) for k, v in outs.items()}
        ops_bits = [[zs[l] for l in (ops if case["fn"] in POINTWISE else le(ops, be))] for ops in host.operands]
        bad = spec_z3(case, ops_bits, {k: [t for t, u in v] for k, v in terms.items()})
        und = [u for v in terms.values() for t, u in v]
        r, m = p.check([z3.Or(*bad, *und)], timeout_ms=timeout_ms, label=f"{case}")
        if r == "sat":
            assign = gencommon.model_values(m, zs)
            probs.append("result is wrong for some operand values")
        elif r == "unsat":
            if p.canaries_run < 1:
                r2, _ = p.check([z3.Not(z3.Or(*bad))], label="canary")
                p.canary(r2 == "sat")
            if host.kind != "fresh":
                r3, _ = p.check([z3.Or(*host.old_gates_unchanged_query())], label="old gates")
                if r3 == "sat":
                    probs.append("a pre-existing gate changed its function")
    if probs:
        if not assign:
            assign = {l: False for l in host.cut_assignment()}
        p.violation(f"gen:{key_of(case)}:{probs[0].split(' ')[0]}", f"{desc}: {probs[:3]}", replay_src(case, host, assign))


def generate(case):
    """The wrapper is called twice and the first result is edited in place by its owner: the second result must
    be a fresh circuit (a generated circuit is the caller's to change)."""
    first = _generate_once(case)
    if first.outputs:
        first.set_outputs(list(first.outputs)[:1])
    if first.gates:
        lab = list(first.gates)[-1]
        if not first.get_gate_users(lab) and lab not in first.outputs and lab not in first.inputs:
            first.remove_gate(lab)
    return _generate_once(case)


def _generate_once(case):
    g = case["gen"]
    be = case.get("big_endian", False)
    if g == "generate_sub_two_numbers":
        return A.generate_sub_two_numbers(case["widths"][0], case["widths"][1], big_endian=be)
    if g == "generate_div_mod":
        return A.generate_div_mod(case["widths"][0], big_endian=be)
    if g == "generate_sqrt":
        return A.generate_sqrt(case["widths"][0], big_endian=be)
    if g == "generate_equal":
        return A.generate_equal(case["widths"][0], case["num"])
    if g == "generate_plus_one":
        return GEN.generate_plus_one(case["widths"][0], case["out_len"], big_endian=be)
    if g == "generate_if_then_else":
        return GEN.generate_if_then_else()
    if g == "generate_pairwise_if_then_else":
        return GEN.generate_pairwise_if_then_else(case["n"])
    if g == "generate_pairwise_xor":
        return GEN.generate_pairwise_xor(case["n"])
    raise ValueError(g)


def check_generate(p, case, timeout_ms=240000):
    """generate_* wrappers: inputs are the operands in order, outputs the results in order."""
    be = case.get("big_endian", False)
    p.case(("c09gen", repr(sorted(case.items()))), sample=f"{case}" if len(p.samples) < 5 else None)
    src = (REPLAY_PRELUDE + "from checks import c09\nimport itertools, random\n" + f"case={case!r}\n"
           "try:\n    c=c09.generate(case)\nexcept Exception as e:\n    print('raised', type(e).__name__, e); sys.exit(1)\n"
           "bad=circ.wf_problems(c)\nw=case['widths']; be=case.get('big_endian', False)\n"
           "if len(c.inputs)!=sum(w): bad.append(('inputs', len(c.inputs)))\n"
           "rnd=random.Random(1)\n"
           "xs=list(itertools.product((False,True), repeat=sum(w))) if sum(w)<=12 else [[rnd.random()<.5 for _ in range(sum(w))] for _ in range(3000)]\n"
           "pw=case['fn'] in c09.POINTWISE\n"
           "for x in xs:\n"
           "    if bad: break\n"
           "    v=list(c.evaluate(list(x))); k=0; vals=[]\n"
           "    for n in w:\n        bits=list(x[k:k+n]); k+=n; vals.append(bits if pw else c09.le(bits, be))\n"
           "    exp=c09.spec_int(case, vals); k=0\n"
           "    for name,val in exp.items():\n"
           "        n=c09.expected_lengths(case).get(name, 1); bits=v[k:k+n]; k+=n\n"
           "        got=sum(int(b)<<i for i,b in enumerate(bits if pw else c09.le(bits, be)))\n"
           "        if got!=val: bad.append((name, vals, got, val)); break\n"
           "print(bad); sys.exit(1 if bad else 0)\n")
    try:
        c = generate(case)
    except Exception as e:  # noqa: BLE001
        p.violation(f"gen:{case['gen']}{':BE' if be else ''}:raises:{type(e).__name__}", f"{case} raised {type(e).__name__}: {e}", src)
        return
    probs = list(circ.wf_problems(c))
    w = case["widths"]
    if len(c.inputs) != sum(w):
        probs.append(f"{len(c.inputs)} inputs, expected {sum(w)}")
    lens = expected_lengths(case)
    names = list(spec_int(case, [[False] * n for n in w]).keys())
    total = sum(lens.get(nm, 1) for nm in names)
    if len(c.outputs) != total:
        probs.append(f"{len(c.outputs)} outputs, expected {total}")
    if not probs:
        zs = [z3.Bool(f"i{k}") for k in range(sum(w))]
        ev = [symeval.lift(v) for v in c.evaluate([symeval.SymState(z, False) for z in zs])]
        pw = case["fn"] in POINTWISE
        ops_bits, k = [], 0
        for n in w:
            bits = zs[k:k + n]
            k += n
            ops_bits.append(bits if pw else le(bits, be))
        outs, k = {}, 0
        for nm in names:
            n = lens.get(nm, 1)
            bits = [symeval.zb(t.t) for t in ev[k:k + n]]
            k += n
            outs[nm] = bits if pw else le(bits, be)
        r, m = p.check([z3.Or(*spec_z3(case, ops_bits, outs), *[symeval.zb(t.u) for t in ev])], timeout_ms=timeout_ms, label=f"gen {case}")
        if r == "sat":
            probs.append("result is wrong for some operand values")
    if probs:
        p.violation(f"gen:{case['gen']}{':BE' if be else ''}:{probs[0].split(' ')[0]}", f"{case}: {probs[:3]}", src)


def make_cases(tier, rnd):
    thorough = tier == "thorough"
    cases = []
    hosts = ["fresh", "host", "repeat", "literal-labels"]
    W = 10 if thorough else 6
    for n in range(1, W + 1):
        for m in range(1, W + 1):
            if not thorough and (n * 3 + m) % 2 and n + m > 6:
                continue
            for be in (False, True):
                cases.append(dict(fn="add_sub_two_numbers", widths=[n, m], big_endian=be, host=rnd.choice(hosts)))
                cases.append(dict(fn="add_subtract_with_compare", widths=[n, m], big_endian=be, host=rnd.choice(hosts)))
            if (n + m) % 3 == 0:
                cases.append(dict(fn="add_sub_two_numbers", gen="generate_sub_two_numbers", widths=[n, m], big_endian=bool(n % 2)))
    for n in range(1, 7):
        for be in (False, True):
            cases.append(dict(fn="add_div_mod", widths=[n, n], big_endian=be, host="repeat2", alias=True))
            cases.append(dict(fn="add_sub_two_numbers", widths=[n, n], big_endian=be, host="repeat2", alias=True))
            cases.append(dict(fn="add_subtract_with_compare", widths=[n, n], big_endian=be, host="repeat2", alias=True))
            if n >= 3:
                # the second operand is made of the first one's gates, in another order / with other repeats
                hk = ("rotated2", "reversed2", "other-repeats2")[(n + be) % 3]
                for fn_ in ("add_div_mod", "add_sub_two_numbers", "add_subtract_with_compare"):
                    cases.append(dict(fn=fn_, widths=[n, n], big_endian=be, host=hk))
    for ao in (False, True):
        for n in (1, 2, 3):
            cases.append(dict(fn="add_pairwise_xor", widths=[n, n], n=n, add_outputs=ao, named=bool(n % 2), host="dup-outputs"))
            cases.append(dict(fn="add_pairwise_if_then_else", widths=[n, n, n], n=n, add_outputs=ao, named=bool(n % 2), host="dup-outputs"))
        cases.append(dict(fn="add_if_then_else", widths=[3], add_outputs=ao, named=False, host="dup-outputs"))
        for h_ in ("fresh", "host"):
            cases.append(dict(fn="add_if_then_else", widths=[3], add_outputs=ao, named="odd", host=h_))
            for n_ in (1, 2, 3):
                cases.append(dict(fn="add_pairwise_if_then_else", widths=[n_, n_, n_], n=n_, add_outputs=ao, named="odd", host=h_))
                cases.append(dict(fn="add_pairwise_xor", widths=[n_, n_], n=n_, add_outputs=ao, named="odd", host=h_))
            cases.append(dict(fn="add_plus_one", widths=[2], out_len=3, add_outputs=ao, named="odd", host=h_))
        cases.append(dict(fn="add_plus_one", widths=[3], out_len=3, add_outputs=ao, host="dup-outputs"))
        for il, ol in ((1, None), (2, None), (3, None), (3, 5), (2, 2)):
            cases.append(dict(fn="add_plus_one", widths=[il], out_len=ol, add_outputs=ao, host="host", live_outputs=True))
        cases.append(dict(fn="add_pairwise_xor", widths=[2, 2], n=2, add_outputs=ao, named=False, host="host", live_outputs=True))
        cases.append(dict(fn="add_pairwise_if_then_else", widths=[2, 2, 2], n=2, add_outputs=ao, named=True, host="host", same_then_else=True))
        cases.append(dict(fn="add_pairwise_if_then_else", widths=[3, 3, 3], n=3, add_outputs=ao, named=False, host="fresh", same_then_else=True))
        cases.append(dict(fn="add_if_then_else", widths=[3], add_outputs=ao, named=bool(ao), host="host", same_then_else=True))
    for w in ([32, 64, 128] if thorough else [32, 128]):
        cases.append(dict(fn="add_sub_two_numbers", widths=[w, w], host="fresh"))
        cases.append(dict(fn="add_subtract_with_compare", widths=[w, w - 5], host="fresh"))
        cases.append(dict(fn="add_subtract_with_compare", widths=[w, w], big_endian=True, host="fresh"))
    cases.append(dict(fn="add_sub2", widths=[2], host="host"))
    cases.append(dict(fn="add_sub2", widths=[2], big_endian=True, host="fresh", skip_spec_be=True))
    cases.append(dict(fn="add_sub3", widths=[3], host="host"))
    for n in range(1, (12 if thorough else 9) + 1):
        for be in (False, True):
            cases.append(dict(fn="add_div_mod", widths=[n, n], big_endian=be, host="fresh" if n > 4 else rnd.choice(hosts), heavy=n >= 10))
        if n <= 8:
            cases.append(dict(fn="add_div_mod", gen="generate_div_mod", widths=[n, n], big_endian=bool(n % 2)))
    for n in list(range(1, (24 if thorough else 16) + 1)) + ([28, 32] if thorough else []):
        cases.append(dict(fn="add_sqrt", widths=[n], big_endian=bool(n % 2), host="fresh" if n > 6 else rnd.choice(hosts), heavy=n >= 26))
        if n % 3 == 1:
            cases.append(dict(fn="add_sqrt", gen="generate_sqrt", widths=[n], big_endian=bool((n + 1) % 2)))
    for n in range(1, (8 if thorough else 6) + 1):
        nums = range(0, (1 << (n + 1)) + 1) if n <= (6 if thorough else 4) else sorted(set(rnd.randrange(0, 1 << (n + 1)) for _ in range(40)) | {0, (1 << n) - 1, 1 << n, 1 << (n + 1)})
        for num in nums:
            cases.append(dict(fn="add_equal", widths=[n], num=num, host=rnd.choice(hosts) if num % 5 == 0 else "fresh"))
        cases.append(dict(fn="add_equal", gen="generate_equal", widths=[n], num=(1 << n) - 2 if n > 1 else 1))
        cases.append(dict(fn="add_equal", gen="generate_equal", widths=[n], num=1 << n))
    # wide words: constants at and around 2^n, 2^53 and 2^63 (where floats stop being exact)
    for n in (31, 32, 49, 53, 54, 63, 64, 65, 96, 128) if thorough else (32, 49, 53, 64, 65, 128):
        for num in sorted({0, 1, (1 << n) - 1, (1 << n) - 2, 1 << (n - 1), (1 << (n - 1)) - 1, 1 << n, (1 << n) + 1, (1 << 53) + 1, (1 << 63) - 1} | {rnd.getrandbits(n)}):
            cases.append(dict(fn="add_equal", widths=[n], num=num, host="fresh"))
    L = 10 if thorough else 6
    for il in range(1, L + 1):
        for ol in [None] + list(range(1, L + 1)):
            if not thorough and ol is not None and (il + ol) % 2:
                continue
            for ao in (False, True):
                cases.append(dict(fn="add_plus_one", widths=[il], out_len=ol, add_outputs=ao, big_endian=bool((il + (ol or 0)) % 2),
                                  host=hosts[(il + (ol or 0) + ao) % 3]))
            if ol is not None and (il * ol) % 4 == 0:
                cases.append(dict(fn="add_plus_one", gen="generate_plus_one", widths=[il], out_len=ol, big_endian=bool(il % 2)))
    for ao in (False, True):
        for named in (False, True):
            for h in hosts:
                cases.append(dict(fn="add_if_then_else", widths=[3], add_outputs=ao, named=named, host=h))
                for n in (1, 2, 4):
                    cases.append(dict(fn="add_pairwise_if_then_else", widths=[n, n, n], n=n, add_outputs=ao, named=named, host=h))
                    cases.append(dict(fn="add_pairwise_xor", widths=[n, n], n=n, add_outputs=ao, named=named, host=h))
    cases.append(dict(fn="add_if_then_else", gen="generate_if_then_else", widths=[3]))
    for n in (1, 3, 5):
        cases.append(dict(fn="add_pairwise_if_then_else", gen="generate_pairwise_if_then_else", widths=[n, n, n], n=n))
        cases.append(dict(fn="add_pairwise_xor", gen="generate_pairwise_xor", widths=[n, n], n=n))
    return [c for c in cases if not c.get("skip_spec_be")]


def unit(p, item, tier, seed):
    rnd = random.Random(item["seed"])
    for case in item["cases"]:
        if case.get("gen"):
            check_generate(p, case)
        else:
            check_case(p, case, rnd, 600000 if case.get("heavy") else 240000)


def divmod_unit(p, item, tier, seed):
    """Restoring division at a width beyond the direct query: per-iteration lemmas + integer argument (c09_comp)."""
    from checks import c09_comp

    n, be = item
    probs, stats = c09_comp.div_mod_true_width(p, n, be)
    p.case(("c09-divmod-comp", n, be), sample=f"compositional div_mod n={n} big_endian={be}: {stats}")
    hard = [x for x in probs if "inconclusive" not in x]
    for x in probs:
        if "inconclusive" in x:
            p.inconclusive.append(f"div_mod n={n}: {x}")
    if not hard:
        return
    mm = c09_comp.concrete_mismatch(n, be)
    if mm is None:
        p.inconclusive.append(f"compositional check of div_mod n={n} failed ({hard[0]}) but the targeted concrete operand pairs divide correctly")
        p.queries["unknown"] += 1
        return
    p.violation(f"gen:add_div_mod:{'BE:' if be else ''}wide", f"div_mod n={n} big_endian={be}: {hard[:2]}; concrete witness {mm[0]} / {mm[1]} gives quotient {mm[2]} remainder {mm[3]}",
                REPLAY_PRELUDE + "from checks import c09_comp\n" + f"mm=c09_comp.concrete_mismatch({n}, {be})\nprint(mm)\nsys.exit(1 if mm else 0)\n")


def sqrt_unit(p, item, tier, seed):
    """Digit-by-digit square root at a width beyond the direct query: per-iteration lemmas + integer invariant (c09_comp)."""
    from checks import c09_comp

    n, be = item
    probs, stats = c09_comp.sqrt_true_width(p, n, be)
    p.case(("c09-sqrt-comp", n, be), sample=f"compositional sqrt n={n} big_endian={be}: {stats}")
    hard = [x for x in probs if "inconclusive" not in x]
    for x in probs:
        if "inconclusive" in x:
            p.inconclusive.append(f"sqrt n={n}: {x}")
    if not hard:
        return
    mm = c09_comp.sqrt_concrete_mismatch(n, be)
    if mm is None:
        p.inconclusive.append(f"compositional check of sqrt n={n} failed ({hard[0]}) but the targeted concrete operands have the right root")
        p.queries["unknown"] += 1
        return
    p.violation(f"gen:add_sqrt:{'BE:' if be else ''}wide", f"sqrt n={n} big_endian={be}: {hard[:2]}; concrete witness sqrt({mm[0]}) gives {mm[1]} instead of {mm[2]}",
                REPLAY_PRELUDE + "from checks import c09_comp\n" + f"mm=c09_comp.sqrt_concrete_mismatch({n}, {be})\nprint(mm)\nsys.exit(1 if mm else 0)\n")


def run(rep, tier, seed, only=None):
    symeval.install()
    rep.functions = ["subtraction.add_sub2/add_sub3/add_sub_two_numbers/add_subtract_with_compare/generate_sub_two_numbers", "div_mod.add_div_mod/generate_div_mod",
                     "sqrt.add_sqrt/generate_sqrt", "equality.add_equal/generate_equal",
                     "generation.add_plus_one/add_if_then_else/add_pairwise_if_then_else/add_pairwise_xor and generate_* forms"]
    rep.bounds = {"sub/compare": "all widths <=6 (quick, half of the larger pairs) / <=10 (thorough), both endiannesses; spot 32..128", "div_mod": "monolithic n<=9 (quick) / <=12 (thorough)",
                  "sqrt": "n<=16 (quick) / <=24, 28, 32 (thorough; 40 does not finish in 300 s)", "equality": "n<=6 / <=8, every 0<=num<=2^(n+1) for small n", "plus_one": "inp_len,out_len<=6 / <=10, add_outputs both, default result labels",
                  "gadgets": "n in {1,2,4}, named/unnamed results, add_outputs both, three host kinds"}
    rep.bounds['requested result labels'] = "gadget cases with the labels '', '0', ' ' among the requested result labels; the labels returned are the labels asked for"
    rep.outside = ["negative num for the equality gadget (undocumented domain)", "width 0", "widths above the listed ones"]
    rep.rule = "case = (generator, widths, endianness, constant/options, host kind); operand values quantified by z3"
    rep.explanation = "z3 decides each bit-vector specification for all operand values per enumerated configuration; outputs-marked-iff-asked, fresh gates only, old gates unchanged per instance"
    rnd = random.Random(seed)
    cases = make_cases(tier, rnd)
    if only:
        cases = [c for c in cases if only in c["fn"]]
    heavy = [c for c in cases if c.get("heavy") or (c["fn"] == "add_div_mod" and c["widths"][0] >= 8)]
    light = [c for c in cases if c not in heavy]
    rnd.shuffle(light)
    work = [dict(seed=seed * 1000 + i, cases=[c]) for i, c in enumerate(heavy)]
    work += [dict(seed=seed * 1000 + 500 + i, cases=light[i::48]) for i in range(48)]
    rep.pmap(unit, [w for w in work if w["cases"]])
    if only is None or "div_mod" in only or "sqrt" in only:
        thorough = tier == "thorough"
        rep.pmap(divmod_unit, [(n, bool(n % 3)) for n in ((12, 16, 24, 32) if not thorough else (10, 12, 13, 16, 17, 24, 31, 32, 33, 48, 64))])
        rep.pmap(sqrt_unit, [(n, bool(n % 3)) for n in ((17, 24, 33, 40) if not thorough else (17, 20, 24, 31, 32, 33, 40, 48, 63, 64))])
        rep.bounds["sqrt (compositional)"] = ("n = 17, 24, 33, 40 (quick) / ..64 (thorough): one bit-vector lemma per iteration of the digit recurrence (entering remainder and accumulator free) + integer invariant lemmas")
        rep.bounds["div_mod (compositional)"] = ("n = 12, 16, 24, 32 (quick) / 10..64 (thorough): one bit-vector lemma per iteration of the restoring scheme (entering remainder and divisor free), "
                                                 "the zero-divisor stage, and integer lemmas (step bound, Euclid uniqueness)")
