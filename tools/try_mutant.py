#!/usr/bin/env python3
"""Evaluate a seeded change: apply it to a scratch worktree of /repo, confirm it passes the
baseline suite and that its demonstration fails with / passes without the change, then run
the given checks against that tree (VERIF_REPO) without touching /repo or the evidence dir.

usage: try_mutant.py <diff> <demo.py|-> <tier> C07 [C01 ...]
"""
import json
import os
import shutil
import subprocess
import sys
import tempfile

VERIF = os.path.dirname(os.path.dirname(os.path.abspath(__file__)))


def sh(cmd, **kw):
    return subprocess.run(cmd, shell=True, capture_output=True, text=True, **kw)


def main():
    diff, demo, tier, *pids = sys.argv[1:]
    wt = tempfile.mkdtemp(prefix="mt_", dir="/tmp")
    os.rmdir(wt)
    out = {"diff": diff, "checks": {}}
    r = sh(f"git -C /repo worktree add -q --detach {wt} HEAD")
    try:
        if demo != "-":
            r = sh(f"PYTHONPATH={wt} /venv/bin/python {demo}", cwd=wt, timeout=900)
            out["demo_clean_rc"] = r.returncode
        r = sh(f"git -C {wt} apply {diff}")
        if r.returncode:
            out["apply_error"] = r.stderr[-300:]
            print(json.dumps(out))
            return
        r = sh("/venv/bin/python -m pytest -q -p no:cacheprovider --timeout=900 --continue-on-collection-errors 2>&1 | tail -1", cwd=wt, timeout=1800)
        out["suite"] = r.stdout.strip()
        if demo != "-":
            r = sh(f"PYTHONPATH={wt} /venv/bin/python {demo}", cwd=wt, timeout=900)
            out["demo_mutant_rc"] = r.returncode
        env = dict(os.environ, VERIF_REPO=wt, VERIF_EVIDENCE_DIR=os.path.join(wt, "_ev"), VERIF_REPLAY_DIR=os.path.join(wt, "_replays"))
        for pid in pids:
            r = subprocess.run([os.path.join(VERIF, ".venv/bin/python"), "-m", "checks.run", pid, "--tier", tier], cwd=VERIF, env=env,
                               capture_output=True, text=True, timeout=7200)
            lines = [l for l in r.stdout.splitlines() if l.startswith(("VIOLATION", "HARNESS-ERROR", "KNOWN", "  key="))]
            out["checks"][pid] = {"rc": r.returncode, "lines": [l[:300] for l in lines[:6]], "summary": [l for l in r.stdout.splitlines() if l.startswith("[C")][-1:]}
    finally:
        sh(f"git -C /repo worktree remove --force {wt}")
        shutil.rmtree(wt, ignore_errors=True)
    print(json.dumps(out, indent=1))


if __name__ == "__main__":
    main()
