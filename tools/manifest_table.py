add("C01", "other",
    "Bounded SMT: z3 decides, for every input assignment (and, on the systematic family, every gate-type labelling), that each evaluation entry point of the real Circuit and each gate-interpreting table equals the reference semantics; circuits are a bounded enumerated family.",
    "Trusted: CPython, z3, the 60-line reference semantics (vlib/refsem.py), the proxy classes (vlib/symeval.py). Bounded: arity<=6, systematic<=3 inputs/3 gates, seeded<=6 inputs/14 gates.",
    "bounded SMT over real operators/evaluators (z3 proxies), validity vs reference semantics", "DESIGN.md §3 C01")
add("C15", "other",
    "Bounded SMT: z3 decides, for all 3^n partial assignments, all refinements/completions and (systematic family) all gate-type labellings, soundness, monotonicity and totality of the real three-valued operators and evaluators.",
    "Trusted: CPython, z3, proxy classes. Bounded: arity<=6; systematic<=3 inputs/3 gates; seeded<=5 inputs/10 gates. Kleene-optimality not claimed.",
    "bounded SMT: three-valued z3 proxies through real operators/evaluators; refinement validity queries", "DESIGN.md §3 C15")
add("C05", "other",
    "Bounded SMT: the clause list produced by the real Tseytin code is bridged to z3; soundness (A), completeness with evaluated values as witness (B) and uniqueness of the extension (C) are decided over all inputs and all CNF variables per circuit x output selection; is_circuit_satisfiable compared with z3's verdict.",
    "Trusted: CPython, z3, reference semantics, SAT-solver stub (z3-backed; real PySAT absent). Bounded: template arity<=6, circuits<=6 inputs/14 gates.",
    "bounded SMT: CNF bridge of real tseytin_transformation output; validity queries", "DESIGN.md §3 C05")
add("C03", "translation_validation",
    "Translation validation: for every (circuit, pass pipeline) of a bounded family the real pass is run and z3 decides, over all inputs, that every output of the result equals the corresponding output of the argument (terms from the real evaluator); interface, argument-unchanged, size and well-formedness predicates are checked per instance.",
    "Trusted: CPython, z3, proxy classes. Bounded: circuits<=6 inputs/14 gates/arity 4; pipelines up to 3 passes, nested, lists, cleanup.",
    "translation validation with z3 equivalence of real-evaluator terms", "DESIGN.md §3 C03")
add("C18", "exploration",
    "Bounded exploration of circuits x passes x pipeline shapes with independent effect predicates (reachability, signatures, unary chains, sequencing equality); the truth-table clause (no two non-input gates equivalent after MergeEquivalentGates) is decided by z3 per gate pair.",
    "Program dimension is enumerated (no value dimension except pairwise inequivalence). Bounded: <=5 inputs, <=13 gates.",
    "bounded exploration + z3 pairwise inequivalence", "DESIGN.md §3 C18")
add("C14", "translation_validation",
    "Translation validation: into_bench is run on each circuit of a bounded family (per-type lemma circuits incl. identical operands and chains, blocks) and z3 decides over all inputs that every pre-existing gate keeps its function; remaining types, well-formedness (users index), helper-gate block membership and the non-mutating drawing path are checked per instance.",
    "Trusted: CPython, z3, proxies. Bounded: <=5 inputs, <=14 gates, <=2 blocks. Circuits without inputs and constants with operands outside.",
    "translation validation with z3 equivalence per pre-existing gate", "DESIGN.md §3 C14")
add("C13", "translation_validation",
    "Translation validation: for each ordered pair of circuits z3 decides the validity of miter_out(x) <=> exists i. left_i(x) != right_i(x) on real-evaluator terms (inputs matched by position); operands unchanged, shapes, well-formedness, dedicated error for mismatched shapes, and satisfiability through Tseytin + solver stub vs z3's inequivalence verdict.",
    "Trusted: CPython, z3, proxies, SAT stub. Bounded: <=4 inputs (seeded) / feature family, 1..3 outputs, <=8 gates.",
    "translation validation with z3 validity of the miter specification", "DESIGN.md §3 C13")
add("C02", "exploration",
    "Bounded exploration: one step of each of 19 public mutators (several argument choices) from directly constructed well-formed pre-states with blocks, plus histories of length <=3; the invariant (operands/outputs exist, users index = multiset inverse, inputs list, acyclic, top_sort both ways, blocks, copy equal + independent) is computed independently of cirbo's traversal code.",
    "No value dimension: the history/program dimension is enumerated lazily, not solved. Calls that raise are not counted. Bounded: <=3 inputs/<=5 gates/<=2 blocks pre-states.",
    "bounded exploration (inductive step) with independent invariant", "DESIGN.md §3 C02")
add("C10", "translation_validation",
    "Translation validation: each composition call (connect_circuit both directions, wrappers, extend, add; internal/repeated/partial connectors; naming/prefix; depth-2) is compared with a reference netlist composition: documented input/output lists, z3 equivalence of every kept output and every gate over all inputs, attached circuit unchanged, result well formed/copyable, named block extracts to the attached circuit's function.",
    "Trusted: CPython, z3, proxies, 40-line reference composition. Bounded: circuits <=3 inputs/<=5 gates + feature family. Right-connect with repeated other_connectors outside.",
    "translation validation vs reference netlist composition (z3 equivalence)", "DESIGN.md §3 C10")
add("C19", "translation_validation",
    "Translation validation: rename (every gate), replace_inputs (cofactor under z3 assumptions), replace_subcircuit (cut-bounded cones; relabelled / cleaned-up / bench-converted equivalent replacements) and remove_gate are run on a bounded family and the function before/after is compared by z3 over all inputs, with reference predicates for references, input order and well-formedness.",
    "Trusted: CPython, z3, proxies. Bounded: <=4 inputs/<=8 gates/<=2 blocks.",
    "translation validation (z3 equivalence / cofactor) per rewrite call", "DESIGN.md §3 C19")
add("C20", "exploration",
    "Bounded exploration: systematic small netlists x start lists x directions x DFS/BFS x hook sets against independent reachability / order oracles (each once, dependency order, enter-before-exit, post-order exits, unvisited = complement in topological order, end hook), and random cyclic netlists for the cycle check.",
    "No value dimension: enumerated, not solved. Bounded: systematic <=2 inputs/<=3 gates, seeded <=4 inputs/<=10 gates, cyclic <=5 gates.",
    "bounded exploration vs independent oracles", "DESIGN.md §3 C20")
add("C07", "other",
    "Bounded SMT: each summation generator is run for an enumerated configuration (n / weight vector / basis spelling / endianness / host kind) and z3 decides the bit-vector identity sum(out_i*2^level_i) = sum(in_j*2^w_j) (a + b*2^shift for the adders) for all operand values, operands being cut points in the host; fresh-gates-only, basis, gate-count bounds, distinct levels, unchanged old gates are checked per instance.",
    "Trusted: CPython, z3, proxies. Bounded: bit count n<=32; weighted sums n<=40, weights<=8 (exhaustive n<=4,w<=3 thorough); adders widths<=10 all shifts 0..n+3, spot 16..64. n=64 bit count outside.",
    "bounded SMT (bit-vector identity over real evaluator terms with cut points)", "DESIGN.md §3 C07")
add("C08", "other",
    "Bounded SMT: each multiplication/squaring mode is run for enumerated (n,m), endianness and host kind and z3 decides out == bvmul(a,b) (and that the product fits the documented n+m / 2n bits) for all operand values; the Karatsuba recursion and the squarer split are decided on threshold-shrunk twins recompiled from the current source (only the guard literals rewritten).",
    "Trusted: CPython, z3, proxies. Bounded: quick <=5x5 + diagonal 7x7, thorough <=8x8 + 9x9; squares n<=14/20; twins widths<=8/12. True-width recursion (n>=20, n==18, squares n>=48) and the guards themselves outside.",
    "bounded SMT (out == bvmul over real evaluator terms); threshold-shrunk twins", "DESIGN.md §3 C08")
add("C09", "other",
    "Bounded SMT: subtraction/borrow, div-mod (with the b=0 convention), integer sqrt bounds, equality with every constant, plus-one, if-then-else and pairwise gadgets are run for enumerated widths/options/hosts and z3 decides each bit-vector specification for all operand values; outputs marked iff asked, fresh gates only, old gates unchanged per instance.",
    "Trusted: CPython, z3, proxies. Bounded: sub<=10 bits (+spot 128), div_mod n<=9/12, sqrt n<=16/24, equality n<=6/8, plus_one <=6/10. Negative constants and width 0 outside.",
    "bounded SMT (bit-vector specifications over real evaluator terms)", "DESIGN.md §3 C09")
add("C06", "other",
    "Bounded SMT over a fully symbolic candidate circuit: the clauses of the real encoder (after the real fix_gate/forbid_wire calls) are bridged to z3 under the real variable names and two validity queries per configuration show that the CNF's models are exactly the circuits admissible under a reference specification; find_circuit (plain and time-limited) is compared with z3's verdict and the decoder is driven with several distinct models.",
    "Trusted: CPython, z3, the reference specification in checks/c06.py, SAT stub (z3). Bounded: n<=3, <=2 outputs, r<=4, named bases + 7 custom, don't-cares exhaustive for n<=2/1 output, constraints <=2 per configuration. circuit_db shortcut excluded by the property.",
    "bounded SMT over symbolic netlist: CNF of real encoder == reference specification (A/B validity queries)", "DESIGN.md §3 C06")
add("C04", "translation_validation",
    "Translation validation under environment stubs (cut enumerator with admissible variations, z3-backed SAT solver): for each (circuit, parameter setting, cut family, hash seed) the real minimize_subcircuits is run with validation on and z3 decides equivalence of argument and result over all inputs; interface, size and well-formedness predicates per instance; internal errors are alarmed only when z3 shows no two gates are functionally equivalent.",
    "Trusted: CPython, z3, proxies, the two stubs (documented contracts). Bounded: binary circuits over the 11 supported types, <=4 inputs, <=9 base gates; 4 cut families; hash seeds 0..3 in thorough.",
    "translation validation with z3 equivalence; environment stubs for mockturtle and PySAT", "DESIGN.md §3 C04")
add("C16", "other",
    "Bounded symbolic execution: the real BitWriter/BitReader run on z3 bit-vector proxies under a forking executor (every path explored, coverage proven by z3, round trip / oversize / padding decided per path); the dictionary codec under CrossHair with symbolic str/bytes (plus an exhaustive small-alphabet companion); encode/decode of a circuit family incl. out-of-format circuits with z3 equivalence of decoded outputs and gate-multiset comparison.",
    "Trusted: CPython, z3, CrossHair, proxies. Bounded: <=3 numbers/<=12 symbolic bits; dict <=2 entries, keys <=3 chars; circuits <=5 inputs/<=10 gates. CrossHair 'Not confirmed' is reported inconclusive, not as success.",
    "bounded symbolic execution (forking executor + CrossHair) and z3 equivalence of decoded circuits", "DESIGN.md §3 C16")
add("C17", "other",
    "Bounded SMT + bounded symbolic execution: every stored entry (thorough: all 2x349,724; quick: all 2-input entries and a seed-rotated 1/20 stride) is decoded and z3 decides on real-evaluator terms that it computes its key (batched), with well-formedness/basis/normal-form predicates; NormalizationInfo is executed on a fully symbolic table by the forking executor (all paths, z3-proven coverage) and denormalize is shown to give back the table; end-to-end look-ups incl. don't-cares compare with direct look-ups of every completion.",
    "Trusted: CPython, z3, proxies. Bounded: normalisation shapes up to 3x4/1x8 (quick), +2x8, 4x4 (thorough); tables <=3 inputs; <=4 don't-cares.",
    "bounded SMT on decoded entries; forking symbolic execution of the normalisation over a symbolic table", "DESIGN.md §3 C17")
add("C11", "translation_validation",
    "Forking symbolic execution of the real bench line parser on symbolic text (identifier characters and operator letter case are z3 integers; all paths explored, coverage proven by z3; per path z3 decides that the recorded gate is what the text denotes), plus translation validation: format->parse round trip (string and file) and parsed-circuit-vs-text denotation (z3 equivalence with the reference semantics) over a circuit family, a keyword-heavy label alphabet and textual layouts.",
    "Trusted: CPython, z3, SymStr proxy (vlib/symstr.py), reference semantics. Bounded: labels <=7 symbolic characters, operands <=2; circuits <=4 inputs/<=8 gates; 3-6 layouts each. CrossHair was tried for (a) and stayed inconclusive (150 s); it is not used.",
    "forking symbolic execution over symbolic strings + z3 equivalence of parsed circuits", "DESIGN.md §3 C11")
add("C12", "other",
    "Bounded symbolic execution over a fully symbolic truth table: TruthTable, PyFunction and a Circuit (mux tree with symbolic constant leaves) are constructed directly in the symbolic state, every protocol query with every index argument runs on each under the forking executor (forks only where the real code compares table entries; path coverage proven by z3) and per path z3 decides answer == mathematical definition; model completion with symbolic values/definitions; integer wrappers against bit-vector specs; CrossHair side condition on the index conversions.",
    "Trusted: CPython, z3, proxies, the z3 definitions in checks/c12.py. Bounded: shapes up to 3 inputs x 1 output and 2x2 (quick), +3x2 (thorough). Constructors' own entry validation is bypassed (state constructed directly). CrossHair 'Not confirmed' reported inconclusive.",
    "bounded symbolic execution (forking executor over a symbolic truth table) with z3 definitions", "DESIGN.md §3 C12")
