add("C01", "other",
    "Bounded SMT: z3 decides, for every input assignment (and, on the systematic family, every gate-type labelling), that each evaluation entry point of the real Circuit and each gate-interpreting table equals the reference semantics; circuits are a bounded enumerated family.",
    "Trusted: CPython, z3, the 60-line reference semantics (vlib/refsem.py), the proxy classes (vlib/symeval.py). Bounded: arity<=6, systematic<=3 inputs/3 gates, seeded<=6 inputs/14 gates.",
    "bounded SMT over real operators/evaluators (z3 proxies), validity vs reference semantics", "DESIGN.md §3 C01")
