#!/bin/sh
# usage: eval_prop.sh C11 [tier] [extra check ids...]   -> evaluates /tmp/wt_C11/_out/m*.diff
P=$1; TIER=${2:-quick}; shift; shift 2>/dev/null
for d in /tmp/wt_$P/_out/m*.diff; do
  k=$(basename $d .diff)
  demo=/tmp/wt_$P/_out/${k}_demo.py
  [ -f $demo ] || demo=-
  /verif/.venv/bin/python /verif/tools/try_mutant.py $d $demo $TIER $P "$@" > /tmp/eval_${P}_${k}_$TIER.json 2>&1
  python3 - <<PY
import json
try:
    d=json.load(open('/tmp/eval_${P}_${k}_$TIER.json'))
    print('$P $k suite=%s demo(clean/mut)=%s/%s' % (d.get('suite'), d.get('demo_clean_rc'), d.get('demo_mutant_rc')), {p:(v['rc'], (v['lines'] or [''])[0][:110]) for p,v in d['checks'].items()})
except Exception as e:
    print('$P $k ERROR', e, open('/tmp/eval_${P}_${k}_$TIER.json').read()[-300:])
PY
done
