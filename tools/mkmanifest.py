"""Regenerate MANIFEST.json from the table below (keeps the file valid at all times)."""
import json
import os

VERIF = os.path.dirname(os.path.dirname(os.path.abspath(__file__)))

ALL = [f"C{i:02d}" for i in range(1, 21)]

# pid -> (level category, level text, level note, technique, design ref)
CHECKS = {}


def add(pid, cat, text, note, technique, ref):
    CHECKS[pid] = (cat, text, note, technique, ref)


exec(open(os.path.join(VERIF, "tools", "manifest_table.py")).read())

NOT_APPLICABLE = globals().get("NOT_APPLICABLE", {})

checks = []
for pid in ALL:
    if pid not in CHECKS:
        continue
    cat, text, note, technique, ref = CHECKS[pid]
    cmd = "sh setup.sh >/dev/null 2>&1; .venv/bin/python -m checks.run %s --tier %s"
    checks.append({
        "property_id": pid,
        "quick_cmd": cmd % (pid, "quick"),
        "thorough_cmd": cmd % (pid, "thorough"),
        "evidence_file": f"/verif/evidence/{pid}.json",
        "replay_cmd_template": ".venv/bin/python {path}",
        "engine": "vlib (z3 proxies through the real code)",
        "level_claimed": {"category": cat, "text": text, "design_ref": ref},
        "level_note": note,
        "technique": technique,
    })
na = [{"property_id": p, "reason": NOT_APPLICABLE.get(p, "check not built yet in this round (work in progress); no claim is made")}
      for p in ALL if p not in CHECKS]
man = {
    "version": 1,
    "setup_cmd": "sh setup.sh",
    "hooks": {
        "guard": "CIRBO_VERIF",
        "enable": "no source hooks: all instrumentation is harness-side wrapping of module attributes at check time (CIRBO_VERIF=1 is exported by the harness but nothing in /repo reads it)",
        "baseline_off_cmd": "cd /repo && /venv/bin/python -m pytest -ra -q -p no:cacheprovider --timeout=900 --continue-on-collection-errors",
        "source_commits": [],
        "add_only": True,
    },
    "engines": [
        {"name": "E-S symeval", "path": "vlib/symeval.py", "serves_properties": ALL, "kind_free_text": "z3 guarded-union proxies executed by the real operators/evaluators"},
        {"name": "E-R refsem", "path": "vlib/refsem.py", "serves_properties": ALL, "kind_free_text": "reference denotational semantics in z3"},
        {"name": "E-F forkexec", "path": "vlib/forkexec.py", "serves_properties": ["C01", "C02", "C11", "C12", "C15", "C16", "C17", "C20"], "kind_free_text": "forking symbolic executor with z3 path feasibility and coverage proof"},
        {"name": "E-Str symstr", "path": "vlib/symstr.py", "serves_properties": ["C11"], "kind_free_text": "strings of concrete length with z3 integer characters; comparisons fork through E-F"},
        {"name": "E-N symnet", "path": "vlib/symnet.py", "serves_properties": ["C02", "C20"], "kind_free_text": "symbolic netlists: operands/outputs/label arguments as z3 choices decided on look-up, lazy users index (assumed invariant)"},
        {"name": "E-C cnf bridges", "path": "checks/c05.py, checks/c06.py", "serves_properties": ["C05", "C06", "C13"], "kind_free_text": "clause lists of the real encoders as z3 formulas under the real variable names"},
        {"name": "E-L compositional", "path": "checks/c08_comp.py, checks/c08_lin.py", "serves_properties": ["C07", "C08"], "kind_free_text": "recorded generator calls; per-block bit-vector lemmas + integer conservation / algebra lemmas"},
        {"name": "E-X crosshair", "path": "xh/", "serves_properties": ["C12", "C16"], "kind_free_text": "CrossHair contracts around real str/bytes code"},
    ],
    "checks": checks,
    "not_applicable": na,
    "notes": "Solver-based checking of the real code; see DESIGN.md. Exit codes: 0 ok, 1 violation, 3 harness error/inconclusive.",
}
with open(os.path.join(VERIF, "MANIFEST.json"), "w") as f:
    json.dump(man, f, indent=1)
print("claimed:", [c["property_id"] for c in checks], "n/a:", [x["property_id"] for x in na])
