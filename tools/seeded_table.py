#!/usr/bin/env python3
"""Regenerate the 'seeded changes' table of DESIGN.md from seeded/*/meta.json."""
import glob
import json
import os
import re

VERIF = os.path.dirname(os.path.dirname(os.path.abspath(__file__)))
rows = []
for d in sorted(glob.glob(os.path.join(VERIF, "seeded", "*"))):
    try:
        m = json.load(open(os.path.join(d, "meta.json")))
    except Exception:
        continue
    name = os.path.basename(d)
    diff = open(os.path.join(d, "patch.diff")).read()
    files = sorted(set(re.findall(r"^\+\+\+ b/(\S+)", diff, re.M)))
    first = (m.get("what_it_needs_to_manifest") or "").strip().split("\n")[0][:150].replace("|", "/")
    caught = m.get("caught_by", {})
    suite = (m.get("confirmed") or {}).get("baseline_suite_with_change") or ""
    invalid = not suite.startswith("2129 passed")
    how = "; ".join(f"**{p}** `{(v.split(':', 1)[0].replace('key=', '') + ':' + v.split(':', 2)[1]) if v.count(':') > 1 else v}`"[:90] for p, v in caught.items()) or ("not a valid seeded change on the current tree (baseline suite with it: " + (suite[:40] or "does not apply") + ")" if invalid else "**missed**")
    na = os.path.join(d, "OUTSIDE_THE_PROPERTY.txt")
    if not caught and os.path.exists(na):
        how = "not alarmed on purpose: " + open(na).read().strip().replace("\n", " ")[:220]
    rows.append(f"| {name} | {', '.join(os.path.basename(f) for f in files)} | {first} | {how} |")
table = ("| seeded change | file(s) | what it is (first line of the author's note) | caught by (check, first violation key) |\n|---|---|---|---|\n" + "\n".join(rows))
p = os.path.join(VERIF, "DESIGN.md")
s = open(p).read()
a, b = "<!-- SEEDED-TABLE-BEGIN -->", "<!-- SEEDED-TABLE-END -->"
if a in s:
    s = s[: s.index(a) + len(a)] + "\n" + table + "\n" + s[s.index(b):]
    open(p, "w").write(s)
print(table[:1500])
print(len(rows), "rows;", sum("missed" in r for r in rows), "missed")
