#!/bin/bash
# usage: try_r3.sh C03 m1 [tier] [checks...]   (round-8 artefacts live in /tmp/wt8_<prop>/_out)
P=$1; K=$2; T=${3:-quick}
shift; shift; [ $# -gt 0 ] && shift
CHK="$@"; [ -z "$CHK" ] && CHK=$P
/verif/.venv/bin/python /verif/tools/try_mutant.py /tmp/wt8_$P/_out/$K.diff /tmp/wt8_$P/_out/${K}_demo.py $T $CHK 2>/dev/null | python3 -c "
import json,sys
t=sys.stdin.read(); d=json.loads(t[t.index('{'):])
print('$P $K', d.get('suite','')[:12], d.get('apply_error','')[:80], d.get('demo_clean_rc'), d.get('demo_mutant_rc'), {p:(v['rc'], [l[:170] for l in v['lines'] if 'key=' in l or 'HARN' in l][:2]) for p,v in d['checks'].items()})"
