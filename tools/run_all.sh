#!/bin/sh
# Run every check of one tier in sequence; print one line per check.
cd "$(dirname "$0")/.."
TIER=${1:-quick}
sh setup.sh >/dev/null 2>&1
for i in 01 02 03 04 05 06 07 08 09 10 11 12 13 14 15 16 17 18 19 20; do
  s=$(date +%s)
  out=$(.venv/bin/python -m checks.run C$i --tier $TIER 2>&1); rc=$?
  e=$(date +%s)
  echo "C$i rc=$rc $((e-s))s $(echo "$out" | grep '^\[C' | tail -1)"
  echo "$out" | grep -E "^(VIOLATION|HARNESS-ERROR|KNOWN-FINDING)" | head -5
done
