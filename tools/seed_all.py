#!/usr/bin/env python3
"""Re-evaluate every seeded change under /tmp/wt_C*/_out against the current /verif and store it as
/verif/seeded/<prop>-<k>/{patch.diff, demo.py, meta.json}."""
import concurrent.futures as cf
import glob
import json
import os
import re
import shutil
import subprocess
import sys

VERIF = os.path.dirname(os.path.dirname(os.path.abspath(__file__)))
EXTRA = {"C01": ["C14", "C05", "C06", "C02", "C04", "C20"], "C08": ["C09"], "C04": ["C02", "C19", "C05"], "C15": ["C01", "C02"], "C03": ["C18"], "C18": ["C03"], "C20": ["C02"], "C02": ["C10"], "C13": ["C10"]}
tier = sys.argv[1] if len(sys.argv) > 1 else "quick"
src_glob = sys.argv[2] if len(sys.argv) > 2 else "/tmp/wt_C*/_out/m*.diff"
tag = sys.argv[3] if len(sys.argv) > 3 else ""


def one(diff):
    kept = re.search(r"/seeded/(C\d+)-([^/]+)/patch\.diff$", diff)
    if kept:
        # re-evaluation of a change already kept under /verif/seeded
        prop, k = kept.group(1), kept.group(2)
        demo = os.path.join(os.path.dirname(diff), "demo.py")
        metat = None
        old = json.load(open(os.path.join(os.path.dirname(diff), "meta.json")))
    else:
        prop = re.search(r"wt\d*_(C\d+)", diff).group(1)
        k = os.path.basename(diff)[:-5]
        demo = diff[:-5] + "_demo.py"
        metat = diff[:-5] + "_meta.txt"
        old = None
    pids = [prop] + EXTRA.get(prop, [])
    r = subprocess.run([os.path.join(VERIF, ".venv/bin/python"), os.path.join(VERIF, "tools/try_mutant.py"), diff, demo if os.path.exists(demo) else "-", tier, *pids],
                       capture_output=True, text=True)
    try:
        res = json.loads(r.stdout[r.stdout.index("{"):])
    except Exception as e:  # noqa: BLE001
        return prop, k, {"error": str(e), "out": r.stdout[-500:] + r.stderr[-500:]}
    d = os.path.join(VERIF, "seeded", f"{prop}-{tag}{k}") if not kept else os.path.dirname(diff)
    os.makedirs(d, exist_ok=True)
    if not kept:
        shutil.copy(diff, os.path.join(d, "patch.diff"))
        if os.path.exists(demo):
            shutil.copy(demo, os.path.join(d, "demo.py"))
    needs = old["what_it_needs_to_manifest"] if kept else (open(metat).read() if os.path.exists(metat) else "")
    caught = {p: (v["lines"][1].strip() if len(v["lines"]) > 1 else v["lines"][0]) for p, v in res["checks"].items() if v["rc"] == 1}
    meta = {
        "property": prop,
        "written_by": "independent sub-agent given only the property text and a scratch worktree",
        "what_it_needs_to_manifest": needs.strip(),
        "confirmed": {
            "baseline_suite_with_change": res.get("suite"),
            "demo_exit_status_clean_tree": res.get("demo_clean_rc"),
            "demo_exit_status_with_change": res.get("demo_mutant_rc"),
            "how": "tools/try_mutant.py: scratch worktree of /repo HEAD, `git apply patch.diff`, baseline pytest command, demo with PYTHONPATH=<worktree>, checks with VERIF_REPO=<worktree>; worktree removed afterwards",
        },
        "checks_run": {p: {"exit": v["rc"], "summary": (v["summary"] or [""])[0]} for p, v in res["checks"].items()},
        "caught_by": caught,
        "tier": tier,
    }
    with open(os.path.join(d, "meta.json"), "w") as f:
        json.dump(meta, f, indent=1)
    return prop, k, {"suite": res.get("suite"), "demo": (res.get("demo_clean_rc"), res.get("demo_mutant_rc")), "caught": sorted(caught), "rcs": {p: v["rc"] for p, v in res["checks"].items()}}


diffs = sorted(glob.glob(src_glob))
with cf.ThreadPoolExecutor(5) as ex:
    for prop, k, r in ex.map(one, diffs):
        print(prop, k, json.dumps(r)[:300], flush=True)
