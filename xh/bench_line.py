"""CrossHair contracts around the real AbstractBenchParser._process_line (C11):
a line `<identifier> = <OP>(...)` must be dispatched to the operator branch,
`INPUT(<identifier>)` / `OUTPUT(<identifier>)` to theirs."""
from cirbo.core.parser.bench import AbstractBenchParser


def _mk():
    methods = {}
    for name in dir(AbstractBenchParser):
        if name.startswith("_process_") and name not in ("_process_line", "_process_operator_gate", "_process_input_gate", "_process_output_gate"):
            methods[name] = (lambda self, out, *a, _n=name: [("operator", _n, out, a)])
    methods["_process_input_gate"] = lambda self, line: [("input", line)]
    methods["_process_output_gate"] = lambda self, line: [("output", line)]
    methods["_eof"] = lambda self: []
    return type("Recorder", (AbstractBenchParser,), methods)


Recorder = _mk()
_ID_CHARS = "abcxyzINPUTOinputo_019"


def _is_id(label: str) -> bool:
    for ch in label:
        if ch not in _ID_CHARS:
            return False
    return len(label) > 0


def _classify(line: str) -> str:
    try:
        res = list(Recorder()._process_line(line))
    except Exception:  # only Exception: CrossHair steers paths with BaseException
        return "raised"
    return res[0][0] if res else "nothing"


def gate_definition_is_operator(label: str) -> str:
    """
    pre: 1 <= len(label) <= 7
    post: _ == "ok"
    """
    kind = _classify(label + " = AND(x, y)")
    if kind != "operator" and _is_id(label):
        return "identifier label " + label + " classified as " + kind
    return "ok"


def gate_definition_is_operator_lower(label: str) -> str:
    """
    pre: 1 <= len(label) <= 7
    post: _ == "ok"
    """
    kind = _classify(label + "=or(x,y)")
    if kind != "operator" and _is_id(label):
        return "identifier label " + label + " classified as " + kind
    return "ok"


def input_declaration_is_input(label: str) -> str:
    """
    pre: 1 <= len(label) <= 6
    post: _ == "ok"
    """
    kind = _classify("INPUT(" + label + ")")
    if kind != "input" and _is_id(label):
        return "INPUT(" + label + ") classified as " + kind
    return "ok"


def output_declaration_is_output(label: str) -> str:
    """
    pre: 1 <= len(label) <= 6
    post: _ == "ok"
    """
    kind = _classify("OUTPUT(" + label + ")")
    if kind != "output" and _is_id(label):
        return "OUTPUT(" + label + ") classified as " + kind
    return "ok"


def reachability_twin(label: str) -> str:
    """
    pre: 1 <= len(label) <= 7
    post: _ != "ok"
    """
    kind = _classify(label + " = AND(x, y)")
    if kind != "operator" and _is_id(label):
        return "identifier label " + label + " classified as " + kind
    return "ok"
