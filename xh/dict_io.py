"""CrossHair contracts around the real binary_dict_io (C16).  Keys/values are symbolic
`str`/`bytes`; the dictionary is passed as an items-view object so that the symbolic
key is not hashed before the writer sees it."""
import io
from typing import List

from cirbo.circuits_db.binary_dict_io import read_binary_dict, write_binary_dict
from cirbo.circuits_db.exceptions import BinaryDictIOError


class _Items:
    def __init__(self, pairs):
        self.pairs = pairs

    def __len__(self):
        return len(self.pairs)

    def items(self):
        return list(self.pairs)


def _write(keys, vals):
    buf = io.BytesIO()
    write_binary_dict(_Items(list(zip(keys, vals))), buf)
    return buf.getvalue()


def roundtrip1(key: str, val: bytes) -> bool:
    """
    pre: len(key) <= 3 and len(val) <= 3
    post: _ == True
    """
    got = read_binary_dict(io.BytesIO(_write([key], [val])))
    return list(got.items()) == [(key, val)]


def roundtrip2(k1: str, v1: bytes, k2: str, v2: bytes) -> bool:
    """
    pre: len(k1) <= 2 and len(k2) <= 2 and len(v1) <= 2 and len(v2) <= 2
    pre: k1 != k2
    post: _ == True
    """
    got = read_binary_dict(io.BytesIO(_write([k1, k2], [v1, v2])))
    return list(got.items()) == [(k1, v1), (k2, v2)]


def truncated_rejected(key: str, val: bytes, cut: int) -> bool:
    """
    pre: len(key) <= 2 and len(val) <= 2
    pre: 0 <= cut
    post: _ == True
    """
    data = _write([key], [val])
    if cut >= len(data):
        return True
    try:
        read_binary_dict(io.BytesIO(data[:cut]))
    except BinaryDictIOError:
        return True
    return False


def trailing_rejected(key: str, val: bytes, extra: int) -> bool:
    """
    pre: len(key) <= 2 and len(val) <= 2
    pre: 0 <= extra <= 255
    post: _ == True
    """
    data = _write([key], [val]) + bytes([extra])
    try:
        read_binary_dict(io.BytesIO(data))
    except BinaryDictIOError:
        return True
    return False


def reachability_twin(key: str, val: bytes) -> bool:
    """
    pre: len(key) <= 3 and len(val) <= 3
    post: _ == False
    """
    got = read_binary_dict(io.BytesIO(_write([key], [val])))
    return list(got.items()) == [(key, val)]
