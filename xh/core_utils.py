"""CrossHair contracts around cirbo.core.utils (C12 side condition)."""
from typing import List

from cirbo.core.utils import canonical_index_to_input, get_bit_value, input_to_canonical_index


def index_roundtrip(index: int, size: int) -> bool:
    """
    pre: 1 <= size <= 6
    pre: 0 <= index < 2 ** size
    post: _ == True
    """
    bits = canonical_index_to_input(index, size)
    return len(bits) == size and input_to_canonical_index(bits) == index


def bit_value_agrees(index: int, size: int, bit: int) -> bool:
    """
    pre: 1 <= size <= 6
    pre: 0 <= index < 2 ** size
    pre: 0 <= bit < size
    post: _ == True
    """
    return get_bit_value(index, bit, size) == canonical_index_to_input(index, size)[bit]


def reachability_twin(index: int, size: int) -> bool:
    """
    pre: 1 <= size <= 6
    pre: 0 <= index < 2 ** size
    post: _ == False
    """
    bits = canonical_index_to_input(index, size)
    return len(bits) == size and input_to_canonical_index(bits) == index
